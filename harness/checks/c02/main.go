// C02 — reads equal a last-write-wins model of the shard.
//
// Seeded histories of writes (all five field types, duplicates, out-of-order
// and extreme timestamps, type-conflicting points), snapshots, level / full /
// optimize / arbitrary compactions with small blocks, range deletes, drops and
// reopen run against a real tsdb.Store. After EVERY operation every series
// field of the model is read back through both public read paths, both
// directions, over the full range and over seeded sub-ranges, and compared
// with the model. Reads are also issued while a cache snapshot is parked
// between "file written" and "file installed" (hook snap.written).
package main

import (
	"fmt"
	"math/rand"
	"os"
	"path/filepath"
	"runtime"
	"sync"
	"time"

	"github.com/influxdata/influxdb/pkg/verifhook"
	"github.com/influxdata/influxdb/tsdb"

	"verifharness/internal/ev"
	sm "verifharness/internal/shardmodel"
)

func main() { ev.Supervise("C02", body) }

var r *ev.Run

type witness struct {
	Seed    int64    `json:"history_seed"`
	Index   string   `json:"index"`
	Ops     []string `json:"ops_so_far"`
	LastOp  sm.Op    `json:"last_op"`
	Detail  string   `json:"detail"`
	Layout  string   `json:"layout"`
	ReadMin int64    `json:"read_min"`
	ReadMax int64    `json:"read_max"`
}

func body() {
	r = ev.Start("C02", "exploration")
	r.Rule = "histories of ~30 ops from a seeded generator (writes of 1-20 points over <=18 series x 6 fields, snapshots, 8 compaction kinds with 1/2/3/10/1000 points per block, deletes, drops, reopen; one long series gives full 1000-point blocks); after every op all model keys are read by cursor and iterator APIs, asc and desc, full range + sub-ranges with ends on/next to existing timestamps. A read is non-trivial when the shard holds >=2 TSM files, or >=1 file plus a non-empty cache, or a snapshot is parked; distinct by (files bucket, cache state, snapshot parked, op kind before the read, range class)."
	r.Assumptions = []string{
		"for a timestamp written twice inside ONE batch either value is accepted (the property orders acknowledgements, not positions inside a batch)",
		"type-conflicting points are generated only against fields that currently hold data, so the expected outcome (point dropped, PartialWriteError) is unambiguous",
		"background compaction is disabled through the product's own do_not_compact marker; compactions are driven explicitly through the planner + Compactor + FileStore.Replace, the steps compactGroup performs",
	}
	r.Floor = 30

	n := r.Pick(48, 1600)
	if v := os.Getenv("C02_N"); v != "" {
		fmt.Sscan(v, &n)
	}
	rng := r.Rand("hist")
	type job struct {
		id   string
		seed int64
		idx  int
	}
	var jobs []job
	for i := 0; i < n; i++ {
		jobs = append(jobs, job{fmt.Sprintf("hist/%d", i), rng.Int63(), i})
	}
	root := ev.TempDir("c02")
	defer os.RemoveAll(root)

	// The snap.written hook is process-global; histories that park a snapshot
	// register a handler keyed by their shard path.
	var hmu sync.Mutex
	handlers := map[string]func() error{}
	verifhook.Set("snap.written", func(name string, args ...interface{}) error {
		p, _ := args[0].(string)
		hmu.Lock()
		h := handlers[p]
		hmu.Unlock()
		if h != nil {
			return h()
		}
		return nil
	})
	// fs.renamed fires inside FileStore.replace, after a new file got its final
	// name and before the file store serves it.
	renamed := map[string]func(){}
	verifhook.Set("fs.renamed", func(name string, args ...interface{}) error {
		p, _ := args[0].(string)
		hmu.Lock()
		h := renamed[filepath.Dir(p)]
		hmu.Unlock()
		if h != nil {
			h()
		}
		return nil
	})
	setRenamed = func(dir string, h func()) {
		hmu.Lock()
		if h == nil {
			delete(renamed, dir)
		} else {
			renamed[dir] = h
		}
		hmu.Unlock()
	}
	setHandler := func(path string, h func() error) {
		hmu.Lock()
		if h == nil {
			delete(handlers, path)
		} else {
			handlers[path] = h
		}
		hmu.Unlock()
	}

	ch := make(chan job)
	var wg sync.WaitGroup
	workers := runtime.NumCPU()
	for w := 0; w < workers; w++ {
		wg.Add(1)
		go func() {
			defer wg.Done()
			for j := range ch {
				index := "inmem"
				if j.idx%3 == 2 {
					index = "tsi1"
				}
				dir := filepath.Join(root, fmt.Sprintf("h%d", j.idx))
				oneHistory(j.id, j.seed, index, dir, j.idx, setHandler)
				os.RemoveAll(dir)
			}
		}()
	}
	for _, j := range jobs {
		if r.Skip(j.id) {
			continue
		}
		ch <- j
	}
	close(ch)
	wg.Wait()
	r.Finish()
}

// setRenamed registers a handler for the fs.renamed hook of one shard directory.
var setRenamed func(dir string, h func())

func oneHistory(caseID string, seed int64, index, dir string, idx int, setHandler func(string, func() error)) {
	g := rand.New(rand.NewSource(seed))
	cfg := sm.DefaultGen()
	cfg.Ops = 22 + g.Intn(18)
	cfg.BigStrings = idx%7 == 0
	gen := sm.NewGenerator(g, cfg)
	tr := sm.NewTracker()
	env := sm.NewEnv(dir, index)
	if err := env.Open(); err != nil {
		fmt.Fprintf(os.Stderr, "harness: open: %v\n", err)
		os.Exit(ev.ExitBroken)
	}
	abandoned := false
	defer func() {
		if !abandoned {
			env.Close()
		}
	}()
	r.Eval(1)

	var opsSoFar []string
	fail := func(sig string, op sm.Op, detail string, min, max int64) {
		r.Violation(sig, caseID, detail, witness{seed, index, append([]string(nil), opsSoFar...), trimOp(op), detail, layout(env), min, max})
	}

	longAt := -1
	if idx%4 == 0 {
		longAt = 2 + g.Intn(6)
	}
	parkedReads := 0

	for step := 0; step < cfg.Ops; step++ {
		var op sm.Op
		if step == longAt {
			op = sm.Op{Kind: "write", Batch: gen.LongBatch(2500, 1000)}
			gen.T.ApplyWrite(op.Batch)
		} else {
			op = gen.Next()
		}
		opsSoFar = append(opsSoFar, op.String())
		parked := false
		okOp := true
		wres, dump := ev.Watch(240*time.Second, 20*time.Second, func() {
			okOp = func() bool {
				switch op.Kind {
				case "write":
					if !doWrite(env, tr, op, fail) {
						return false
					}
					// idempotence: re-writing identical points changes nothing
					if g.Intn(4) == 0 {
						before := tr.Clone()
						res := env.Write(op.Batch)
						if res.Err != nil && !res.Partial {
							fail("C02/rewrite-error", op, "re-writing an identical batch failed: "+res.Err.Error(), 0, 0)
							return false
						}
						// the model is unchanged by an identical re-write
						_ = before
						r.Count("identical_rewrites", 1)
					}
				case "snapshot":
					// Park the snapshot between "file written" and "file installed",
					// read (and sometimes write) inside the window.
					var inner *sm.Mismatch
					var innerErr error
					var innerOp *sm.Op
					writeInside := g.Intn(3) == 0
					var extra sm.Op
					if writeInside {
						extra = sm.Op{Kind: "write", Batch: gen.Batch()}
						gen.T.ApplyWrite(extra.Batch)
					}
					setHandler(env.ShardDir(), func() error {
						parked = true
						if writeInside {
							ok := doWrite(env, tr, extra, fail)
							if !ok {
								innerOp = &extra
								return nil
							}
						}
						var reads int
						reads, inner, innerErr = tr.CheckAll(env, true)
						r.Count("reads", int64(reads))
						r.Count("reads_while_snapshot_parked", int64(reads))
						return nil
					})
					// a second look while the flushed file has its final name but is
					// not served yet: the snapshot must still answer from the cache
					var mid *sm.Mismatch
					var midErr error
					midN := 0
					setRenamed(env.ShardDir(), func() {
						if midN > 0 {
							return
						}
						midN++
						var reads int
						reads, mid, midErr = tr.CheckAll(env, true)
						r.Count("reads", int64(reads))
						r.Count("reads_between_rename_and_install_of_a_snapshot_file", int64(reads))
					})
					err := env.Snapshot()
					setRenamed(env.ShardDir(), nil)
					setHandler(env.ShardDir(), nil)
					if err == nil && innerOp == nil && midErr == nil && mid != nil {
						fail("C02/lww/"+mid.Kind+"/snapshot-file-renamed-not-installed", op, "read while the flushed snapshot file is renamed but not yet installed: "+mid.Error(), sm.MinTime, sm.MaxTime)
						return false
					}
					if innerOp != nil {
						return false
					}
					if err != nil {
						fail("C02/snapshot-error", op, "WriteSnapshot failed: "+err.Error(), 0, 0)
						return false
					}
					if innerErr != nil {
						fail("C02/read-error", op, "read while snapshot parked: "+innerErr.Error(), 0, 0)
						return false
					}
					if inner != nil {
						fail("C02/lww/"+inner.Kind+"/snapshot-parked", op, "read while a cache snapshot is being flushed: "+inner.Error(), sm.MinTime, sm.MaxTime)
						return false
					}
					if parked {
						parkedReads++
						if writeInside {
							opsSoFar = append(opsSoFar, "  (inside snapshot window) "+extra.String())
						}
					} else if writeInside {
						// nothing to snapshot, the window never opened: the write the
						// generator already accounted for happens after the no-op snapshot
						opsSoFar = append(opsSoFar, extra.String())
						if !doWrite(env, tr, extra, fail) {
							return false
						}
					}
				case "compact":
					nGroups, err := env.Compact(op.Compact, op.PPB, op.Arg)
					if err != nil {
						fail("C02/compact-error", op, err.Error(), 0, 0)
						return false
					}
					r.Count("compaction_groups", int64(nGroups))
				case "delete":
					if err := env.Delete(op.Sel, op.Min, op.Max, op.HasMin, op.HasMax); err != nil {
						fail("C02/delete-error", op, err.Error(), 0, 0)
						return false
					}
					min, max := op.EffRange()
					tr.ApplyDelete(op.Sel, min, max)
				case "drop-measurement":
					if err := env.DropMeasurement(op.Meas); err != nil {
						fail("C02/drop-error", op, err.Error(), 0, 0)
						return false
					}
					tr.ApplyDelete(sm.Selector{Measurement: op.Meas}, sm.MinTime, sm.MaxTime)
				case "reopen":
					if err := env.Reopen(); err != nil {
						fail("C02/reopen-error", op, err.Error(), 0, 0)
						return false
					}
				}

				return true
			}()
		})
		if wres != ev.Finished {
			// a hang is judged by C19 (deadlock freedom); here it only means
			// this history cannot be continued
			r.Inconclusive(fmt.Sprintf("%s: %s did not finish (deadlock evidence=%v); history abandoned", caseID, op, wres == ev.Deadlocked))
			_ = dump
			abandoned = true
			return
		}
		if !okOp {
			return
		}

		// ---- reads after the op
		nFiles, cacheNonEmpty := 0, false
		if eng, err := env.Engine(); err == nil {
			nFiles = len(eng.FileStore.Stats())
			cacheNonEmpty = eng.Cache.Size() > 0
		}
		reads, mm, err := tr.CheckAll(env, true)
		r.Count("reads", int64(reads))
		if err != nil {
			fail("C02/read-error", op, err.Error(), sm.MinTime, sm.MaxTime)
			return
		}
		if mm != nil {
			fail("C02/lww/"+mm.Kind, op, fmt.Sprintf("after %s: %s", op, mm.Error()), sm.MinTime, sm.MaxTime)
			return
		}
		nontriv := nFiles >= 2 || (nFiles >= 1 && cacheNonEmpty) || parked
		if nontriv {
			r.Nontrivial(fmt.Sprintf("full|%d|%v|%v|%s", bucket(nFiles), cacheNonEmpty, parked, op.Kind))
		}
		// sub-ranges
		tsPool := timestampPool(tr)
		for k := 0; k < 4 && len(tsPool) > 0; k++ {
			a, ca := pickEnd(g, tsPool)
			b, cb := pickEnd(g, tsPool)
			if a > b {
				a, b = b, a
				ca, cb = cb, ca
			}
			reads, mm, err := tr.CheckRange(env, a, b, true)
			r.Count("reads", int64(reads))
			r.Count("subrange_reads", int64(reads))
			if err != nil {
				fail("C02/read-error", op, err.Error(), a, b)
				return
			}
			if mm != nil {
				fail("C02/lww/"+mm.Kind+"/subrange", op, fmt.Sprintf("after %s, range [%d,%d]: %s", op, a, b, mm.Error()), a, b)
				return
			}
			if nontriv {
				r.Nontrivial(fmt.Sprintf("sub|%d|%v|%s|%s|%s", bucket(nFiles), cacheNonEmpty, op.Kind, ca, cb))
			}
		}
		// field types: a field never holds two types
		if !checkTypes(env, tr, op, fail) {
			return
		}
	}
	r.Count("histories", 1)
	r.Count("snapshots_parked", int64(parkedReads))
	if r.WantSample() {
		r.Sample(map[string]interface{}{"case": caseID, "index": index, "ops": opsSoFar, "final_layout": layout(env), "model_points": tr.M.NumPoints()})
	}
}

func trimOp(op sm.Op) sm.Op {
	if len(op.Batch) > 40 {
		op.Batch = op.Batch[:40]
	}
	return op
}

func bucket(n int) int {
	if n > 4 {
		return 5
	}
	return n
}

func doWrite(env *sm.Env, tr *sm.Tracker, op sm.Op, fail func(string, sm.Op, string, int64, int64)) bool {
	expDropped := 0
	for _, p := range op.Batch {
		if tr.M.Conflicts(p) {
			expDropped++
		}
	}
	res := env.Write(op.Batch)
	switch {
	case expDropped == 0 && res.Err != nil:
		fail("C02/write-rejected", op, "a batch without type conflicts was not accepted: "+res.Err.Error(), 0, 0)
		return false
	case expDropped > 0 && !res.Partial:
		fail("C02/conflict-not-reported", op, fmt.Sprintf("batch holds %d points with a conflicting field type but the write returned %v instead of a partial-write error", expDropped, res.Err), 0, 0)
		return false
	case expDropped > 0 && res.Dropped != expDropped:
		fail("C02/conflict-dropped-count", op, fmt.Sprintf("batch holds %d type-conflicting points, partial write reports %d dropped", expDropped, res.Dropped), 0, 0)
		return false
	}
	if expDropped > 0 {
		r.Count("type_conflict_points_rejected", int64(expDropped))
	}
	tr.ApplyWrite(op.Batch)
	r.Count("points_written", int64(len(op.Batch)-expDropped))
	return true
}

func layout(env *sm.Env) string {
	eng, err := env.Engine()
	if err != nil {
		return "?"
	}
	s := fmt.Sprintf("cache=%dB files=[", eng.Cache.Size())
	for i, st := range eng.FileStore.Stats() {
		if i > 0 {
			s += " "
		}
		s += filepath.Base(st.Path)
		if st.HasTombstone {
			s += "+tomb"
		}
	}
	return s + "]"
}

func timestampPool(tr *sm.Tracker) []int64 {
	seen := map[int64]bool{}
	var out []int64
	for _, tv := range tr.M.Data {
		for t := range tv {
			if !seen[t] {
				seen[t] = true
				out = append(out, t)
			}
		}
	}
	return out
}

func pickEnd(g *rand.Rand, pool []int64) (int64, string) {
	t := pool[g.Intn(len(pool))]
	switch g.Intn(8) {
	case 0:
		if t > sm.MinTime {
			return t - 1, "ts-1"
		}
	case 1:
		if t < sm.MaxTime {
			return t + 1, "ts+1"
		}
	case 2:
		return sm.MinTime, "min"
	case 3:
		return sm.MaxTime, "max"
	case 4:
		// block boundaries of the long series (1000-point blocks start at 1000)
		return 1000 + int64(g.Intn(3))*1000 + int64(g.Intn(3)) - 1, "block-edge"
	}
	return t, "ts"
}

func checkTypes(env *sm.Env, tr *sm.Tracker, op sm.Op, fail func(string, sm.Op, string, int64, int64)) bool {
	sh := env.Shard()
	if sh == nil {
		return true
	}
	want := map[string]map[string]byte{}
	for k, tv := range tr.M.Data {
		if len(tv) == 0 {
			continue
		}
		m := tr.M.SeriesOf[k.SeriesID].Name
		if want[m] == nil {
			want[m] = map[string]byte{}
		}
		for _, v := range tv {
			want[m][k.Field] = v.Kind
			break
		}
	}
	for m, fs := range want {
		mf := sh.MeasurementFields([]byte(m))
		for f, kind := range fs {
			fld := mf.Field(f)
			if fld == nil {
				fail("C02/field-type-missing", op, fmt.Sprintf("measurement %s field %s holds data but has no registered type", m, f), 0, 0)
				return false
			}
			if kindOf(fld) != kind {
				fail("C02/field-two-types", op, fmt.Sprintf("measurement %s field %s is registered as %v but holds values of kind %c", m, f, fld.Type, kind), 0, 0)
				return false
			}
		}
	}
	return true
}

func kindOf(f *tsdb.Field) byte {
	switch f.Type.String() {
	case "float":
		return 'f'
	case "integer":
		return 'i'
	case "unsigned":
		return 'u'
	case "string":
		return 's'
	case "boolean":
		return 'b'
	}
	return '?'
}
