package main

import (
	"context"
	"fmt"
	"os"
	"path/filepath"
	"regexp"
	"sort"
	"strings"
	"time"

	"github.com/influxdata/influxdb/models"
	"github.com/influxdata/influxdb/toml"
	"github.com/influxdata/influxdb/tsdb"
	_ "github.com/influxdata/influxdb/tsdb/engine"
	"github.com/influxdata/influxdb/tsdb/engine/tsm1"
	_ "github.com/influxdata/influxdb/tsdb/index"
	"github.com/influxdata/influxdb/tsdb/index/tsi1"
	"github.com/influxdata/influxql"
)

const (
	dbName = "db0"
	rpName = "rp0"
)

// Env is a real tsdb.Store with one database and several shards.
type Env struct {
	Root      string
	Index     string // "inmem" | "tsi1"
	ShardIDs  []uint64
	MaxLog    int64 // tsi1 MaxIndexLogFileSize
	SFileThr  int   // SeriesPartition.CompactThreshold (0 = leave the default)
	Store     *tsdb.Store
	sfileSeen map[string]string // partition index file -> "size/mtime" (to count rebuilt series indexes)
	lastNames []string          // measurements the last expanded delete was issued for (diagnosis)
}

func (e *Env) dataDir() string { return filepath.Join(e.Root, "data") }
func (e *Env) walDir() string  { return filepath.Join(e.Root, "wal") }
func (e *Env) shardDir(id uint64) string {
	return filepath.Join(e.dataDir(), dbName, rpOf(id), fmt.Sprint(id))
}

// rpOf: the shards of one database alternate between two retention policies
// (raw / down-sampled style): the series file and the inmem index are per
// database, not per policy.
func rpOf(id uint64) string {
	if id%2 == 0 {
		return "rp1"
	}
	return rpName
}

// Open opens the store, creating missing shards.
func (e *Env) Open() error {
	s := tsdb.NewStore(e.dataDir())
	opts := tsdb.NewEngineOptions()
	opts.IndexVersion = e.Index
	opts.Config.Index = e.Index
	opts.Config.WALDir = e.walDir()
	opts.Config.Dir = e.dataDir()
	opts.Config.MaxIndexLogFileSize = toml.Size(e.MaxLog)
	// no time-driven snapshots / compactions: they are driven explicitly
	opts.Config.CacheSnapshotMemorySize = toml.Size(1 << 40)
	opts.Config.CacheMaxMemorySize = toml.Size(1 << 41)
	opts.Config.CacheSnapshotWriteColdDuration = toml.Duration(1000 * time.Hour)
	opts.Config.CompactFullWriteColdDuration = toml.Duration(1000 * time.Hour)
	opts.Config.MaxConcurrentCompactions = 2
	s.EngineOptions = opts
	if err := os.MkdirAll(e.dataDir(), 0o755); err != nil {
		return err
	}
	if err := s.Open(); err != nil {
		return fmt.Errorf("store open: %w", err)
	}
	e.Store = s
	for _, id := range e.ShardIDs {
		if s.Shard(id) != nil {
			continue
		}
		os.MkdirAll(e.shardDir(id), 0o755)
		os.WriteFile(filepath.Join(e.shardDir(id), tsm1.DoNotCompactFile), nil, 0o644)
		if err := s.CreateShard(dbName, rpOf(id), id, true); err != nil {
			s.Close()
			e.Store = nil
			return fmt.Errorf("create shard %d: %w", id, err)
		}
	}
	if e.SFileThr > 0 {
		sf, err := e.SeriesFile()
		if err != nil {
			return err
		}
		for _, p := range sf.Partitions() {
			p.CompactThreshold = e.SFileThr
		}
	}
	return nil
}

func (e *Env) Close() error {
	if e.Store == nil {
		return nil
	}
	err := e.Store.Close()
	e.Store = nil
	return err
}

func (e *Env) Reopen() error {
	if err := e.Close(); err != nil {
		return fmt.Errorf("close: %w", err)
	}
	return e.Open()
}

func (e *Env) SeriesFile() (*tsdb.SeriesFile, error) {
	sh := e.Store.Shard(e.ShardIDs[0])
	if sh == nil {
		return nil, fmt.Errorf("shard %d missing", e.ShardIDs[0])
	}
	return sh.SeriesFile()
}

func (e *Env) engine(id uint64) (*tsm1.Engine, error) {
	sh := e.Store.Shard(id)
	if sh == nil {
		return nil, fmt.Errorf("shard %d missing", id)
	}
	eng, err := sh.Engine()
	if err != nil {
		return nil, err
	}
	t, ok := eng.(*tsm1.Engine)
	if !ok {
		return nil, fmt.Errorf("engine is %T", eng)
	}
	return t, nil
}

// Pt is one point of a write.
type Pt struct {
	S  *Series
	TS int64
}

func (e *Env) Write(shard uint64, pts []Pt) error {
	mp := make([]models.Point, 0, len(pts))
	for _, p := range pts {
		pt, err := models.NewPoint(p.S.Name, models.NewTags(p.S.Tags), models.Fields{"v": float64(p.TS)}, time.Unix(0, p.TS))
		if err != nil {
			return fmt.Errorf("harness: cannot build point: %w", err)
		}
		mp = append(mp, pt)
	}
	return e.Store.WriteToShard(shard, mp)
}

// Source selects the measurements of a delete.
type Source struct {
	Name  string // exact name ("" = none)
	Regex string // regular expression ("" = none)
}

func (s Source) sel() NameSel {
	switch {
	case s.Name != "":
		return nameSel("=", s.Name)
	case s.Regex != "":
		return nameSel("=~", s.Regex)
	}
	return NameSel{}
}

// Delete is Store.DeleteSeries: DROP SERIES when bounded is false, DELETE otherwise.
func (e *Env) Delete(src Source, pred *Pred, bounded bool, min, max int64) error {
	var sources []influxql.Source
	switch {
	case src.Name != "":
		sources = append(sources, &influxql.Measurement{Name: src.Name})
	case src.Regex != "":
		sources = append(sources, &influxql.Measurement{Regex: &influxql.RegexLiteral{Val: regexp.MustCompile(src.Regex)}})
	}
	var cond influxql.Expr
	if pred != nil {
		cond = pred.Expr()
	}
	if bounded {
		tc, err := influxql.ParseExpr(fmt.Sprintf("time >= %d AND time <= %d", min, max))
		if err != nil {
			return fmt.Errorf("harness: %w", err)
		}
		if cond == nil {
			cond = tc
		} else {
			cond = &influxql.BinaryExpr{Op: influxql.AND, LHS: &influxql.ParenExpr{Expr: cond}, RHS: tc}
		}
	}
	e.WaitTSI()
	if e.Index == "tsi1" && e.MaxLog < 1<<20 && src.Name == "" {
		// see Assumptions: one statement per measurement, quiescing in between
		names, err := e.MeasurementNames(nil)
		if err != nil {
			return err
		}
		sel := src.sel()
		e.lastNames = append([]string{"store listed:"}, names...)
		for _, n := range names {
			if !sel.Match(n) {
				continue
			}
			if err := e.Store.DeleteSeries(dbName, []influxql.Source{&influxql.Measurement{Name: n}}, influxql.CloneExpr(cond)); err != nil {
				return err
			}
			e.WaitTSI()
		}
		return nil
	}
	return e.Store.DeleteSeries(dbName, sources, cond)
}

func (e *Env) DropMeasurement(name string) error {
	e.WaitTSI()
	return e.Store.DeleteMeasurement(dbName, name)
}

// Snapshot writes a shard's cache to a TSM file.
func (e *Env) Snapshot(id uint64) error {
	var err error
	for try := 0; try < 5; try++ {
		var eng *tsm1.Engine
		if eng, err = e.engine(id); err != nil {
			return err
		}
		e.Store.Shard(id).SetCompactionsEnabled(true)
		err = eng.WriteSnapshot()
		if err == nil || !strings.Contains(err.Error(), "disabled") {
			return err
		}
	}
	return err
}

// CompactTSM fully compacts all TSM files of a shard (the steps compactGroup performs).
func (e *Env) CompactTSM(id uint64) (bool, error) {
	eng, err := e.engine(id)
	if err != nil {
		return false, err
	}
	var group []string
	for _, st := range eng.FileStore.Stats() {
		group = append(group, st.Path)
	}
	sort.Strings(group)
	if len(group) == 0 {
		return false, nil
	}
	var files []string
	for try := 0; try < 5; try++ {
		e.Store.Shard(id).SetCompactionsEnabled(true)
		files, err = eng.Compactor.CompactFull(group)
		if err == nil || !strings.Contains(err.Error(), "disabled") {
			break
		}
	}
	if err != nil {
		return false, fmt.Errorf("compact: %w", err)
	}
	if err := eng.FileStore.ReplaceWithCallback(group, files, nil); err != nil {
		for _, f := range files {
			os.Remove(f)
		}
		return false, fmt.Errorf("replace after compact: %w", err)
	}
	return true, nil
}

// tsi returns the tsi1 index of a shard (nil for inmem).
func (e *Env) tsi(id uint64) *tsi1.Index {
	sh := e.Store.Shard(id)
	if sh == nil {
		return nil
	}
	idx, err := sh.Index()
	if err != nil {
		return nil
	}
	t, _ := idx.(*tsi1.Index)
	return t
}

// quiesceTSI brings a tsi1 index to rest: Index.Wait alone is not a barrier,
// because a finishing compaction decrements the counter and only then asks for
// the follow-up compaction. Compact() starts whatever is due synchronously, so
// a round in which it starts nothing means nothing is running or pending.
func quiesceTSI(t *tsi1.Index) int {
	rounds := 0
	for {
		t.Wait()
		t.Compact()
		busy := false
		for i := 0; i < int(t.PartitionN); i++ {
			if t.PartitionAt(i).CurrentCompactionN() > 0 {
				busy = true
			}
		}
		if !busy {
			return rounds
		}
		rounds++
	}
}

// CompactTSI asks every tsi1 index for a compaction and waits until the
// partitions are quiet.
func (e *Env) CompactTSI() {
	e.WaitTSI()
}

// WaitTSI brings every tsi1 index to rest (running and due compactions done).
func (e *Env) WaitTSI() {
	for _, id := range e.ShardIDs {
		if t := e.tsi(id); t != nil {
			quiesceTSI(t)
		}
	}
}

var tsiFileRe = regexp.MustCompile(`^L(\d+)-(\d+)\.(tsi|tsl)$`)

// TSILevels counts index files per level over all shards and partitions (directory listing).
func (e *Env) TSILevels() map[int]int {
	out := map[int]int{}
	if e.Index != "tsi1" {
		return out
	}
	for _, id := range e.ShardIDs {
		parts, _ := filepath.Glob(filepath.Join(e.shardDir(id), "index", "*"))
		for _, p := range parts {
			ents, _ := os.ReadDir(p)
			for _, en := range ents {
				if m := tsiFileRe.FindStringSubmatch(en.Name()); m != nil && m[3] == "tsi" {
					var l int
					fmt.Sscan(m[1], &l)
					out[l]++
				}
			}
		}
	}
	return out
}

// waitSFile waits until no series-file partition is compacting.
func (e *Env) waitSFile() error {
	sf, err := e.SeriesFile()
	if err != nil {
		return err
	}
	deadline := time.Now().Add(120 * time.Second)
	for _, p := range sf.Partitions() {
		for p.Compacting() {
			if time.Now().After(deadline) {
				return fmt.Errorf("series partition still compacting")
			}
			time.Sleep(time.Millisecond)
		}
	}
	return nil
}

// CompactSFile rebuilds every series-file partition index now.
func (e *Env) CompactSFile() (int, error) {
	if err := e.waitSFile(); err != nil {
		return 0, err
	}
	sf, err := e.SeriesFile()
	if err != nil {
		return 0, err
	}
	n := 0
	for _, p := range sf.Partitions() {
		if err := tsdb.NewSeriesPartitionCompactor().Compact(p); err != nil {
			return n, err
		}
		n++
	}
	return n, nil
}

// SFileRebuilt counts partition index files that changed since the last call
// (threshold-driven compactions started by writes).
func (e *Env) SFileRebuilt() int {
	if e.sfileSeen == nil {
		e.sfileSeen = map[string]string{}
	}
	n := 0
	paths, _ := filepath.Glob(filepath.Join(e.dataDir(), dbName, tsdb.SeriesFileDirectory, "*", "index"))
	for _, p := range paths {
		st, err := os.Stat(p)
		if err != nil {
			continue
		}
		sig := fmt.Sprintf("%d/%d", st.Size(), st.ModTime().UnixNano())
		if old, ok := e.sfileSeen[p]; ok && old != sig {
			n++
		}
		e.sfileSeen[p] = sig
	}
	return n
}

// ---------------------------------------------------------------- questions

var bg = context.Background()

func (e *Env) MeasurementNames(cond influxql.Expr) ([]string, error) {
	names, err := e.Store.MeasurementNames(bg, nil, dbName, "", cond)
	if err != nil {
		return nil, err
	}
	out := make([]string, 0, len(names))
	for _, n := range names {
		out = append(out, string(n))
	}
	sort.Strings(out)
	return dedup(out), nil
}

func dedup(a []string) []string {
	if len(a) < 2 {
		return a
	}
	out := a[:1]
	for _, s := range a[1:] {
		if s != out[len(out)-1] {
			out = append(out, s)
		}
	}
	return out
}

func (e *Env) TagKeys(shards []uint64, cond influxql.Expr) ([]string, error) {
	res, err := e.Store.TagKeys(bg, nil, shards, cond)
	if err != nil {
		return nil, err
	}
	var out []string
	for _, tk := range res {
		for _, k := range tk.Keys {
			out = append(out, tk.Measurement+"\x00"+k)
		}
	}
	sort.Strings(out)
	return dedup(out), nil
}

func (e *Env) TagValues(shards []uint64, cond influxql.Expr) ([]string, error) {
	res, err := e.Store.TagValues(bg, nil, shards, cond)
	if err != nil {
		return nil, err
	}
	var out []string
	for _, tv := range res {
		for _, kv := range tv.Values {
			out = append(out, tv.Measurement+"\x00"+kv.Key+"\x00"+kv.Value)
		}
	}
	sort.Strings(out)
	return dedup(out), nil
}

// IndexSet builds the index set of the shards the way Store does.
func (e *Env) IndexSet(shards []uint64) (tsdb.IndexSet, error) {
	is := tsdb.IndexSet{}
	for _, id := range shards {
		sh := e.Store.Shard(id)
		if sh == nil {
			return is, fmt.Errorf("shard %d missing", id)
		}
		if is.SeriesFile == nil {
			sf, err := sh.SeriesFile()
			if err != nil {
				return is, err
			}
			is.SeriesFile = sf
		}
		idx, err := sh.Index()
		if err != nil {
			return is, err
		}
		is.Indexes = append(is.Indexes, idx)
	}
	return is.DedupeInmemIndexes(), nil
}

// SeriesByExpr runs IndexSet.MeasurementSeriesByExprIterator and resolves the ids.
func (e *Env) SeriesByExpr(shards []uint64, name string, cond influxql.Expr) ([]string, error) {
	is, err := e.IndexSet(shards)
	if err != nil {
		return nil, err
	}
	itr, err := is.MeasurementSeriesByExprIterator([]byte(name), cond)
	if err != nil {
		return nil, err
	}
	if itr == nil {
		return nil, nil
	}
	defer itr.Close()
	var out []string
	for {
		el, err := itr.Next()
		if err != nil {
			return nil, err
		}
		if el.SeriesID == 0 {
			break
		}
		if el.Expr != nil {
			if b, ok := el.Expr.(*influxql.BooleanLiteral); !ok || !b.Val {
				return nil, fmt.Errorf("harness: residual expression %s for a pure tag predicate", el.Expr)
			}
		}
		key := is.SeriesFile.SeriesKey(el.SeriesID)
		if len(key) == 0 {
			out = append(out, fmt.Sprintf("<series id %d without key>", el.SeriesID))
			continue
		}
		n, tags := tsdb.ParseSeriesKey(key)
		tm := map[string]string{}
		for _, t := range tags {
			tm[string(t.Key)] = string(t.Value)
		}
		out = append(out, seriesKey(string(n), tm))
	}
	sort.Strings(out)
	return dedup(out), nil
}

// NamesByPredicate runs IndexSet.MeasurementNamesByPredicate.
func (e *Env) NamesByPredicate(shards []uint64, cond influxql.Expr) ([]string, error) {
	is, err := e.IndexSet(shards)
	if err != nil {
		return nil, err
	}
	names, err := is.MeasurementNamesByPredicate(nil, cond)
	if err != nil {
		return nil, err
	}
	out := make([]string, 0, len(names))
	for _, n := range names {
		out = append(out, string(n))
	}
	sort.Strings(out)
	return dedup(out), nil
}

// NamesByExprShard runs IndexSet.MeasurementNamesByExpr on a subset of shards.
func (e *Env) NamesByExprShards(shards []uint64, cond influxql.Expr) ([]string, error) {
	is, err := e.IndexSet(shards)
	if err != nil {
		return nil, err
	}
	names, err := is.MeasurementNamesByExpr(nil, cond)
	if err != nil {
		return nil, err
	}
	out := make([]string, 0, len(names))
	for _, n := range names {
		out = append(out, string(n))
	}
	sort.Strings(out)
	return dedup(out), nil
}

func (e *Env) SeriesCardinality() (int64, error) { return e.Store.SeriesCardinality(bg, dbName) }

func (e *Env) ShardSeriesN(id uint64) (int64, error) {
	sh := e.Store.Shard(id)
	if sh == nil {
		return 0, fmt.Errorf("shard %d missing", id)
	}
	return sh.SeriesN(), nil
}

// SketchEstimates returns the sketch-based series and measurement estimates.
func (e *Env) SketchEstimates() (series, tombSeries, meas int64, err error) {
	ss, ts, err := e.Store.SeriesSketches(bg, dbName)
	if err != nil {
		return 0, 0, 0, err
	}
	mc, err := e.Store.MeasurementsCardinality(bg, dbName)
	if err != nil {
		return 0, 0, 0, err
	}
	return int64(ss.Count()), int64(ts.Count()), mc, nil
}

// DeletedIDs returns the ids counted by the shards' indexes although the series
// file has them deleted AND can no longer resolve their key (the precondition
// of the log-replay defect: see replayClass).
func (e *Env) DeletedIDs(shards []uint64) map[uint64]struct{} {
	out := map[uint64]struct{}{}
	for _, id := range shards {
		sh := e.Store.Shard(id)
		if sh == nil {
			continue
		}
		idx, err := sh.Index()
		if err != nil {
			continue
		}
		sf, err := sh.SeriesFile()
		if err != nil {
			continue
		}
		idx.SeriesIDSet().ForEach(func(sid uint64) {
			if sf.IsDeleted(sid) && len(sf.SeriesKey(sid)) == 0 {
				out[sid] = struct{}{}
			}
		})
	}
	return out
}

// PhantomInMeasurement reports whether some shard's tsi1 index counts, under the
// measurement, a series id that the series file has deleted and cannot resolve
// any more (the id resurrected by the log-replay defect, see replayClass).
func (e *Env) PhantomInMeasurement(shards []uint64, name string) bool {
	for _, id := range shards {
		t := e.tsi(id)
		if t == nil {
			continue
		}
		sf := t.SeriesFile()
		set := t.SeriesIDSet()
		itr, err := t.MeasurementSeriesIDIterator([]byte(name))
		if err != nil || itr == nil {
			continue
		}
		found := false
		for {
			el, err := itr.Next()
			if err != nil || el.SeriesID == 0 {
				break
			}
			if set.Contains(el.SeriesID) && sf.IsDeleted(el.SeriesID) && len(sf.SeriesKey(el.SeriesID)) == 0 {
				found = true
				break
			}
		}
		itr.Close()
		if found {
			return true
		}
	}
	return false
}

// MeasurementDetail describes what each shard's tsi1 index holds for a measurement (diagnosis only).
func (e *Env) MeasurementDetail(shards []uint64, name string) []string {
	var out []string
	for _, id := range shards {
		t := e.tsi(id)
		if t == nil {
			continue
		}
		has, _ := t.MeasurementHasSeries([]byte(name))
		exists, _ := t.MeasurementExists([]byte(name))
		line := fmt.Sprintf("shard %d %q: MeasurementExists=%v MeasurementHasSeries=%v ids:", id, name, exists, has)
		sf := t.SeriesFile()
		set := t.SeriesIDSet()
		if itr, err := t.MeasurementSeriesIDIterator([]byte(name)); err == nil && itr != nil {
			for {
				el, err := itr.Next()
				if err != nil || el.SeriesID == 0 {
					break
				}
				n, tags := sf.Series(el.SeriesID)
				line += fmt.Sprintf(" [%d in-shard-set=%v deleted-in-series-file=%v %s %s]", el.SeriesID, set.Contains(el.SeriesID), sf.IsDeleted(el.SeriesID), n, tags.String())
			}
			itr.Close()
		}
		out = append(out, line)
	}
	return out
}

// DataSeries lists (canonical keys of) the series that have data - cache or TSM
// files - in a shard's engine (diagnosis only: index-level vs data-level cause).
func (e *Env) DataSeries(id uint64) map[string]struct{} {
	out := map[string]struct{}{}
	eng, err := e.engine(id)
	if err != nil {
		return out
	}
	add := func(k []byte) {
		sk, _ := tsm1.SeriesAndFieldFromCompositeKey(k)
		name, tags := models.ParseKeyBytes(sk)
		tm := map[string]string{}
		for _, t := range tags {
			tm[string(t.Key)] = string(t.Value)
		}
		out[seriesKey(string(name), tm)] = struct{}{}
	}
	for _, k := range eng.Cache.Keys() {
		add(k)
	}
	eng.FileStore.WalkKeys(nil, func(k []byte, _ byte) error {
		add(append([]byte(nil), k...))
		return nil
	})
	return out
}

// SeriesIDDetail lists the series ids a shard's index counts, resolved through the series file.
func (e *Env) SeriesIDDetail(id uint64) []string {
	sh := e.Store.Shard(id)
	if sh == nil {
		return nil
	}
	idx, err := sh.Index()
	if err != nil {
		return nil
	}
	sf, err := sh.SeriesFile()
	if err != nil {
		return nil
	}
	var out []string
	idx.SeriesIDSet().ForEach(func(sid uint64) {
		key := sf.SeriesKey(sid)
		desc := "<no key in series file>"
		if len(key) > 0 {
			n, tags := tsdb.ParseSeriesKey(key)
			tm := map[string]string{}
			for _, t := range tags {
				tm[string(t.Key)] = string(t.Value)
			}
			desc = show(seriesKey(string(n), tm))
		}
		out = append(out, fmt.Sprintf("shard %d id %d deleted-in-series-file=%v %s", id, sid, sf.IsDeleted(sid), desc))
	})
	return out
}
