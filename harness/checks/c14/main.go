// C14 — the series index always matches the data, for both index types.
//
// Twin tsdb.Stores (one inmem, one tsi1) are fed the same seeded history over
// 2-3 shards of one database: writes that create and re-create series from
// small pools, DROP SERIES with tag / regex predicates, DELETE over everything,
// over one shard's window and over partial ranges, DROP MEASUREMENT, TSI
// log->index-file and multi-level compactions (tiny MaxIndexLogFileSize plus
// explicit Compact/Wait), series-file compactions (lowered CompactThreshold plus
// explicit partition compaction), cache snapshots, TSM compactions and reopen of
// the whole store. After EVERY step both stores answer listing and predicate
// questions; every answer is compared with the answer computed from a model of
// the live series by an independent predicate evaluator.
package main

import (
	"fmt"
	"math/rand"
	"os"
	"path/filepath"
	"runtime"
	"strings"
	"sync/atomic"
	"time"

	"github.com/influxdata/influxql"

	"verifharness/internal/ev"
)

func main() {
	if os.Getenv("C14_WORKER") != "" {
		workerMain()
		return
	}
	ev.Supervise("C14", body)
}

// r receives everything the histories observe: the ev.Run itself in the
// coordinator (repro mode), a pipe to the coordinator in a worker process.
var r reporter

type witness struct {
	Seed     int64    `json:"history_seed"`
	Index    string   `json:"index"`
	Settings string   `json:"settings"`
	Ops      []string `json:"ops_so_far"`
	Question string   `json:"question"`
	Scope    []uint64 `json:"shards"`
	Want     []string `json:"want"`
	Got      []string `json:"got"`
	Missing  []string `json:"missing,omitempty"`
	Surplus  []string `json:"surplus,omitempty"`
	TSI      string   `json:"tsi_index_files_by_level,omitempty"`
	Settled  []string `json:"diagnosis_answer_again_after_tsi_at_rest_and_index_detail,omitempty"`
}

func body() {
	run := ev.Start("C14", "exploration")
	r = run
	run.Rule = "histories of 24-39 ops from a seeded generator over 2-3 shards of one database, applied to an inmem and a tsi1 store (writes of 1-8 points over a pool of 14-27 series of 5 measurements x 5 tag keys, DROP SERIES / DELETE with tag and regex predicates and measurement sources, DROP MEASUREMENT, tsi compaction, series-file compaction, snapshot, TSM compaction, reopen; tsi1 MaxIndexLogFileSize in {1,256,2048,1MiB}, series partition CompactThreshold in {1,2,8,default}); after every op ~40 questions per store. A question is non-trivial when it is asked after >=1 series was dropped from a shard AND >=1 index compaction, series-file compaction or reopen happened since that drop; distinct by (question kind, predicate operator class, index type, last three op kinds)."
	run.Assumptions = []string{
		"a series is live iff it holds >= 1 point in some shard; DROP SERIES / DELETE / DROP MEASUREMENT that remove the last point of a series in a shard drop it from that shard's index",
		"time-bounded DELETEs either cover a shard's whole time window or are generated so that every selected series keeps >= 1 point in the shard: a series emptied only by an accumulation of partial range deletes with gaps may legitimately stay listed until its TSM entry is compacted away (the property speaks of drops, not of emptiness)",
		"missing tag == empty string: `k = ''` matches series without k, `!=` / `!~` match series lacking the tag unless the literal / regex matches the empty string",
		"SHOW MEASUREMENTS WHERE <tag predicate> (Store.MeasurementNames with a tag condition) is only asked with `=` non-empty literals, `=~` regexes that do not match the empty string, and ORs of those; the `!=`, `!~`, empty-matching and AND forms are measurement-level set operations in the implementation whose intended meaning is unclear, so they are not judged",
		"IndexSet.MeasurementNamesByPredicate is asked with single predicates and ORs only (AND is an intersection of measurement sets there)",
		"per-shard questions are only put to tsi1 (the inmem index is one per database by design); database-wide questions go to both",
		"sketch-based estimates (SeriesSketches, MeasurementsCardinality) are only checked to be non-negative and recorded; SeriesCardinality (bitmap union) and Shard.SeriesN (bitmap cardinality) are exact APIs and compared exactly",
		"Store.DeleteSeries / DeleteMeasurement deadlock in tsi1 when a log-file compaction is running or is started by the delete of an earlier measurement of the same statement (iterator retained across Index.Wait; a hang is C19's subject, reported separately): deletes are issued after Index.Wait, and on the tsi1 twin with MaxIndexLogFileSize < 1 MiB a statement naming several measurements is issued as one Store.DeleteSeries per measurement the store itself lists; the inmem twin always gets the statement as is",
		"tag keys named like fields, `value`, `time` or starting with `_` are not generated (they select other code paths by design)",
	}
	run.Floor = 40

	n := run.Pick(40, 800)
	if v := os.Getenv("C14_N"); v != "" {
		fmt.Sscan(v, &n)
	}
	rng := run.Rand("hist")
	var jobs []job
	for i := 0; i < n; i++ {
		jobs = append(jobs, job{fmt.Sprintf("hist/%d", i), rng.Int63(), i})
	}
	root := ev.TempDir("c14")
	defer os.RemoveAll(root)

	if name := os.Getenv("C14_REPRO"); name != "" {
		run.Floor = 0
		runRepro(name, filepath.Join(root, "repro"))
		os.RemoveAll(root)
		run.Finish()
		return
	}

	only := os.Getenv("C14_ONLY")
	var todo []job
	for _, j := range jobs {
		if run.Skip(j.id) || (only != "" && only != fmt.Sprint(j.idx)) {
			continue
		}
		todo = append(todo, j)
	}
	if v := os.Getenv("C14_REPEAT"); v != "" { // diagnosis of schedule-dependent findings: run the selected cases k times
		k := 1
		fmt.Sscan(v, &k)
		base := todo
		for i := 1; i < k; i++ {
			todo = append(todo, base...)
		}
	}
	workers := runtime.NumCPU()
	if workers > 16 {
		workers = 16
	}
	if v := os.Getenv("C14_WORKERS"); v != "" {
		fmt.Sscan(v, &workers)
	}
	coordinate(run, todo, root, workers)
	os.RemoveAll(root)
	run.Finish()
}

// History is the state of one running history.
type History struct {
	caseID string
	seed   int64
	g      *rand.Rand
	m      *Model
	gen    *Gen
	envs   []*Env // [inmem, tsi1]
	ops    []string
	kinds  []string

	dropSeen       bool // some series was dropped from a shard
	churnSinceDrop bool // index / series-file compaction or reopen since the last drop
	reopened       bool // the stores were reopened at least once
	dead           bool // stores must not be used any more (hung operation)
	settled        []string
	stop           bool // an unlisted violation was reported: the twins may have diverged from the model
}

func (h *History) settings() string {
	return fmt.Sprintf("shards=%v tsi1.MaxIndexLogFileSize=%d SeriesPartition.CompactThreshold=%d", h.m.Shards, h.envs[1].MaxLog, h.envs[1].SFileThr)
}

func oneHistory(caseID string, seed int64, idx int, dir string) {
	g := rand.New(rand.NewSource(seed))
	nsh := 2 + g.Intn(2)
	var shards []uint64
	for i := 0; i < nsh; i++ {
		shards = append(shards, uint64(i+1))
	}
	maxLog := []int64{1, 1, 1, 256, 2048, 1 << 20}[g.Intn(6)]
	thr := []int{1, 1, 2, 8, 0}[g.Intn(5)]
	steps := 24 + g.Intn(16)
	scripted := idx%4 == 3
	if scripted {
		maxLog = 1
	}

	h := &History{caseID: caseID, seed: seed, g: g, m: newModel(shards)}
	h.gen = newGen(g, h.m)
	if scripted {
		h.gen.scriptRecreate()
		r.Count("histories_with_scripted_drop_recreate_compact_reopen", 1)
	}
	for _, index := range []string{"inmem", "tsi1"} {
		h.envs = append(h.envs, &Env{Root: filepath.Join(dir, index), Index: index, ShardIDs: shards, MaxLog: maxLog, SFileThr: thr})
	}
	r.Begin(caseID, map[string]interface{}{"history_seed": seed, "settings": h.settings()})
	r.Eval(1)
	for _, e := range h.envs {
		if err := e.Open(); err != nil {
			fmt.Fprintf(os.Stderr, "harness: open %s: %v\n", e.Index, err)
			os.Exit(ev.ExitBroken)
		}
	}
	defer func() {
		if h.dead {
			return
		}
		res, _ := ev.Watch(150*time.Second, 15*time.Second, func() {
			for _, e := range h.envs {
				e.Close()
			}
		})
		if res != ev.Finished {
			r.Inconclusive(caseID + ": store close did not finish")
		}
	}()

	for step := 0; step < steps && !h.stop; step++ {
		op := h.gen.Next(step < 3)
		if !h.apply(op) {
			return
		}
		if !h.askAll() {
			return
		}
	}
	r.Count("histories_completed", 1)
	r.Count("series_dropped_from_a_shard", int64(h.m.Drops))
	r.Count("series_recreated_after_drop", int64(h.m.Recreated))
	if r.WantSample() {
		r.Sample(map[string]interface{}{"case": caseID, "settings": h.settings(), "ops": h.ops, "live_series_at_end": len(h.m.Live(shards)), "tsi_files_by_level": fmt.Sprint(h.envs[1].TSILevels())})
	}
}

// fail reports a violation; it returns true when the history may go on (known finding).
func (h *History) fail(sig string, e *Env, q string, scope []uint64, want, got, missing, surplus []string, what string) bool {
	w := witness{Seed: h.seed, Index: e.Index, Settings: h.settings(), Ops: append([]string(nil), h.ops...), Question: q, Scope: scope,
		Want: showAll(want), Got: showAll(got), Missing: showAll(missing), Surplus: showAll(surplus), TSI: fmt.Sprint(e.TSILevels()), Settled: h.settled}
	h.settled = nil
	known := r.Violation(sig, h.caseID, what, w)
	if !known && os.Getenv("C14_KEEPGOING") == "" {
		h.stop = true
	}
	return known || os.Getenv("C14_KEEPGOING") != ""
}

// apply runs one operation on both stores and on the model.
func (h *History) apply(op Op) bool {
	h.ops = append(h.ops, op.String())
	h.kinds = append(h.kinds, op.Kind)
	r.Count("op_"+op.Kind, 1)
	var opErr error
	var errEnv *Env
	// Compactions of the tsi1 log started by this op run in the background;
	// half of the time the questions are asked while they may still be running.
	settle := h.g.Intn(2) == 0 || op.Kind == "tsi-compact"
	res, dump := ev.Watch(150*time.Second, 15*time.Second, func() {
		for _, e := range h.envs {
			var err error
			switch op.Kind {
			case "write":
				err = e.Write(op.Shard, op.pts)
			case "drop-series":
				err = e.Delete(op.src, op.pred, false, 0, 0)
			case "delete-all", "delete-window", "delete-partial":
				err = e.Delete(op.src, op.pred, true, op.Min, op.Max)
			case "drop-measurement":
				err = e.DropMeasurement(op.Meas)
			case "tsi-compact":
				e.CompactTSI()
			case "sfile-compact":
				var n int
				n, err = e.CompactSFile()
				r.Count("series_file_partition_compactions_explicit", int64(n))
			case "snapshot":
				err = e.Snapshot(op.Shard)
			case "tsm-compact":
				var done bool
				done, err = e.CompactTSM(op.Shard)
				if done {
					r.Count("tsm_full_compactions", 1)
				}
			case "reopen":
				err = e.Reopen()
			}
			if err != nil {
				opErr, errEnv = err, e
				return
			}
			if op.Kind == "write" {
				if err := e.waitSFile(); err != nil {
					opErr, errEnv = err, e
					return
				}
				r.Count("series_file_partition_indexes_rebuilt_by_threshold", int64(e.SFileRebuilt()))
			}
			if settle {
				e.WaitTSI()
			}
		}
	})
	if res != ev.Finished {
		// a hang is judged by C19; here the history simply cannot go on
		r.Inconclusive(fmt.Sprintf("%s: %s did not finish (deadlock evidence=%v); history abandoned", h.caseID, op, res == ev.Deadlocked))
		saveHang(h.caseID, op.String(), dump)
		h.dead = true
		return false
	}
	if opErr != nil {
		if strings.HasPrefix(opErr.Error(), "harness:") {
			fmt.Fprintf(os.Stderr, "%v\n", opErr)
			os.Exit(ev.ExitBroken)
		}
		h.fail("C14/op-error/"+op.Kind+"/"+errEnv.Index, errEnv, op.String(), h.m.Shards, nil, nil, nil, nil,
			fmt.Sprintf("%s store: %s failed: %v", errEnv.Index, op, opErr))
		return false
	}

	// the model
	switch op.Kind {
	case "write":
		for _, p := range op.pts {
			h.m.Write(op.Shard, p.S, p.TS)
		}
	case "drop-series":
		if h.m.Delete(op.src.sel(), op.pred, -1<<62, 1<<62) > 0 {
			h.dropSeen, h.churnSinceDrop = true, false
		}
	case "delete-all", "delete-window", "delete-partial":
		if h.m.Delete(op.src.sel(), op.pred, op.Min, op.Max) > 0 {
			h.dropSeen, h.churnSinceDrop = true, false
		}
	case "drop-measurement":
		if h.m.Delete(nameSel("=", op.Meas), nil, -1<<62, 1<<62) > 0 {
			h.dropSeen, h.churnSinceDrop = true, false
		}
	case "tsi-compact", "sfile-compact", "reopen":
		h.churnSinceDrop = true
		h.reopened = h.reopened || op.Kind == "reopen"
	}
	// Compactions of the tsi1 log started by this op run in the background;
	// half of the time the questions are asked while they may still be running.
	if lv := h.envs[1].TSILevels(); len(lv) > 0 {
		max := 0
		for l := range lv {
			if l > max {
				max = l
			}
		}
		r.Count(fmt.Sprintf("steps_with_tsi_index_files_up_to_level_%d", max), 1)
		if max >= 1 && h.dropSeen {
			h.churnSinceDrop = h.churnSinceDrop || op.Kind == "write" || op.Kind == "drop-series" || strings.HasPrefix(op.Kind, "delete") || op.Kind == "drop-measurement"
		}
	}
	return true
}

// Question is one question put to the stores.
type Question struct {
	Kind     string
	Desc     string
	Ops      string
	Scope    []uint64
	TSIOnly  bool
	Want     []string
	Ask      func(e *Env) ([]string, error)
	Classify func(e *Env, entry string) string // class of one surplus entry: "" (unexplained) or a recognised class
}

func andAll(parts ...influxql.Expr) influxql.Expr {
	var out influxql.Expr
	for _, p := range parts {
		if p == nil {
			continue
		}
		if out == nil {
			out = p
			continue
		}
		out = &influxql.BinaryExpr{Op: influxql.AND, LHS: out, RHS: p}
	}
	return out
}

func exprString(e influxql.Expr) string {
	if e == nil {
		return "<no condition>"
	}
	return e.String()
}

func (h *History) randName() NameSel {
	g := h.g
	switch g.Intn(4) {
	case 0:
		return nameSel("=", measPool[g.Intn(len(measPool))])
	case 1:
		return nameSel("!=", measPool[g.Intn(len(measPool))])
	case 2:
		return nameSel("=~", nameRegexes[g.Intn(len(nameRegexes))])
	}
	return nameSel("!~", nameRegexes[g.Intn(len(nameRegexes))])
}

func (h *History) randKeySel() NameSel {
	g := h.g
	switch r := g.Intn(10); {
	case r < 6:
		return nameSel("=", tagKeys[g.Intn(len(tagKeys))])
	case r < 7:
		return nameSel("!=", tagKeys[g.Intn(len(tagKeys))])
	case r < 9:
		return nameSel("=~", keyRegexes[g.Intn(len(keyRegexes))])
	}
	return nameSel("!~", keyRegexes[g.Intn(len(keyRegexes))])
}

// keySelExpr renders a key selection; "=" selections are sometimes an OR of two keys (WITH KEY IN).
func (h *History) keySelExpr(k NameSel) (influxql.Expr, func(string) bool) {
	if k.Op == "=" && h.g.Intn(4) == 0 {
		other := tagKeys[h.g.Intn(len(tagKeys))]
		ex := &influxql.ParenExpr{Expr: &influxql.BinaryExpr{Op: influxql.OR, LHS: k.Expr("_tagKey"), RHS: nameSel("=", other).Expr("_tagKey")}}
		return ex, func(s string) bool { return s == k.Val || s == other }
	}
	return k.Expr("_tagKey"), k.Match
}


// questions builds the questions of one step.
func (h *History) questions() []Question {
	g := h.g
	all := h.m.Shards
	var qs []Question

	scopes := [][]uint64{all}
	one := []uint64{all[g.Intn(len(all))]}
	if len(h.ops)%2 == 0 {
		scopes = append(scopes, one) // per-shard questions (tsi1 only) every other step
	}

	for si, scope := range scopes {
		scope := scope
		tsiOnly := si > 0
		live := h.m.Live(scope)
		tag := ""
		if tsiOnly {
			tag = "/shard"
		}

		// --- measurement names, no condition
		qs = append(qs, Question{Kind: "measurement-names" + tag, Desc: "MeasurementNames()", Ops: "none", Scope: scope, TSIOnly: tsiOnly,
			Want: ExpMeasurements(live, NameSel{}, nil),
			Ask: func(e *Env) ([]string, error) {
				if tsiOnly {
					return e.NamesByExprShards(scope, nil)
				}
				return e.MeasurementNames(nil)
			}})
		// --- measurement names by name
		for i := 0; i < 2-si; i++ {
			ns := h.randName()
			ex := ns.Expr("_name")
			qs = append(qs, Question{Kind: "measurement-names-by-name" + tag, Desc: "MeasurementNames(" + exprString(ex) + ")", Ops: ns.Op, Scope: scope, TSIOnly: tsiOnly,
				Want: ExpMeasurements(live, ns, nil),
				Ask: func(e *Env) ([]string, error) {
					if tsiOnly {
						return e.NamesByExprShards(scope, ex)
					}
					return e.MeasurementNames(ex)
				}})
		}
		// --- measurement names by tag filter (SHOW MEASUREMENTS WHERE): positive forms only
		for i := 0; i < 2-si; i++ {
			p := h.gen.positiveLeaf()
			if g.Intn(4) == 0 {
				p = &Pred{Op: "OR", L: p, R: h.gen.positiveLeaf()}
			}
			ex := p.Expr()
			qs = append(qs, Question{Kind: "measurement-names-by-tag" + tag, Desc: "MeasurementNames(" + exprString(ex) + ")", Ops: p.OpClass(), Scope: scope, TSIOnly: tsiOnly,
				Want: ExpMeasurementsByTagFilter(live, p),
				Ask: func(e *Env) ([]string, error) {
					if tsiOnly {
						return e.NamesByExprShards(scope, ex)
					}
					return e.MeasurementNames(ex)
				},
				Classify: h.classifyMeasSurplus(scope, p)})
		}
		// --- measurement names by predicate (storage read path)
		for i := 0; i < 3-2*si; i++ {
			p := h.gen.leaf()
			if g.Intn(4) == 0 {
				p = &Pred{Op: "OR", L: p, R: h.gen.leaf()}
			}
			ex := p.Expr()
			qs = append(qs, Question{Kind: "measurement-names-by-predicate" + tag, Desc: "IndexSet.MeasurementNamesByPredicate(" + exprString(ex) + ")", Ops: p.OpClass(), Scope: scope, TSIOnly: tsiOnly,
				Want:     ExpMeasurements(live, NameSel{}, p),
				Ask:      func(e *Env) ([]string, error) { return e.NamesByPredicate(scope, ex) },
				Classify: h.classifyMeasSurplus(scope, p)})
		}
		// --- tag keys
		qs = append(qs, Question{Kind: "tag-keys" + tag, Desc: "TagKeys()", Ops: "none", Scope: scope, TSIOnly: tsiOnly,
			Want:     ExpTagKeys(live, NameSel{}, NameSel{}, nil),
			Ask:      func(e *Env) ([]string, error) { return e.TagKeys(scope, nil) },
			Classify: h.classifyTagSurplus(scope, nil)})
		for i := 0; i < 3-2*si; i++ {
			var ns, ks NameSel
			var keyEx influxql.Expr
			keyMatch := func(string) bool { return true }
			var filter *Pred
			var filterEx influxql.Expr
			if g.Intn(2) == 0 {
				ns = h.randName()
			}
			if g.Intn(2) == 0 {
				ks = h.randKeySel()
				keyEx, keyMatch = h.keySelExpr(ks)
			}
			if g.Intn(2) == 0 {
				filter = h.gen.Pred()
				filterEx = &influxql.ParenExpr{Expr: filter.Expr()}
			}
			ex := andAll(ns.Expr("_name"), keyEx, filterEx)
			want := filterKeys(ExpTagKeys(live, ns, NameSel{}, filter), keyMatch, 1)
			qs = append(qs, Question{Kind: "tag-keys" + tag, Desc: "TagKeys(" + exprString(ex) + ")", Ops: "name" + ns.Op + "|key" + ks.Op + "|" + filter.OpClass(), Scope: scope, TSIOnly: tsiOnly,
				Want:     want,
				Ask:      func(e *Env) ([]string, error) { return e.TagKeys(scope, ex) },
				Classify: h.classifyTagSurplus(scope, filter)})
		}
		// --- tag values
		for i := 0; i < 4-3*si; i++ {
			var ns NameSel
			var filter *Pred
			var filterEx influxql.Expr
			if g.Intn(3) == 0 {
				ns = h.randName()
			}
			ks := h.randKeySel()
			keyEx, keyMatch := h.keySelExpr(ks)
			if g.Intn(20) == 0 {
				ks, keyEx, keyMatch = NameSel{}, nil, func(string) bool { return true }
			}
			if g.Intn(2) == 0 || keyEx == nil {
				filter = h.gen.Pred()
				filterEx = &influxql.ParenExpr{Expr: filter.Expr()}
			}
			ex := andAll(ns.Expr("_name"), keyEx, filterEx)
			want := filterKeys(ExpTagValues(live, ns, NameSel{}, filter), keyMatch, 1)
			qs = append(qs, Question{Kind: "tag-values" + tag, Desc: "TagValues(" + exprString(ex) + ")", Ops: "name" + ns.Op + "|key" + ks.Op + "|" + filter.OpClass(), Scope: scope, TSIOnly: tsiOnly,
				Want:     want,
				Ask:      func(e *Env) ([]string, error) { return e.TagValues(scope, ex) },
				Classify: h.classifyTagSurplus(scope, filter)})
		}
		// --- series of every measurement, no predicate
		for _, name := range measPool {
			name := name
			qs = append(qs, Question{Kind: "series-by-expr" + tag, Desc: fmt.Sprintf("MeasurementSeriesByExprIterator(%q, <no condition>)", name), Ops: "none", Scope: scope, TSIOnly: tsiOnly,
				Want:     ExpSeries(live, name, nil),
				Ask:      func(e *Env) ([]string, error) { return e.SeriesByExpr(scope, name, nil) },
				Classify: h.classifySeriesSurplus(scope)})
		}
		// --- series by predicate
		for i := 0; i < 5-3*si; i++ {
			name := measPool[g.Intn(len(measPool))]
			if g.Intn(3) != 0 && len(live) > 0 {
				// prefer a measurement that is live
				ms := ExpMeasurements(live, NameSel{}, nil)
				name = ms[g.Intn(len(ms))]
			}
			p := h.gen.Pred()
			ex := p.Expr()
			qs = append(qs, Question{Kind: "series-by-expr" + tag, Desc: fmt.Sprintf("MeasurementSeriesByExprIterator(%q, %s)", name, exprString(ex)), Ops: p.OpClass(), Scope: scope, TSIOnly: tsiOnly,
				Want:     ExpSeries(live, name, p),
				Ask:      func(e *Env) ([]string, error) { return e.SeriesByExpr(scope, name, ex) },
				Classify: h.classifySeriesSurplus(scope)})
		}
	}
	return qs
}

// filterKeys keeps the entries whose field `pos` (\x00 separated) satisfies match.
func filterKeys(in []string, match func(string) bool, pos int) []string {
	var out []string
	for _, s := range in {
		f := strings.Split(s, "\x00")
		if match(f[pos]) {
			out = append(out, s)
		}
	}
	return out
}

const (
	// tsi1 tombstones tag keys / values only together with their measurement
	ghostClass = "tag-of-dropped-series-in-live-measurement"
	// tsi1: the key / value tombstones of a dropped measurement are lost (LogFile.execDeleteMeasurementEntry
	// resets the tag set after they were applied) and tag readers do not look at the measurement tombstone
	tombClass = "tag-of-dropped-measurement-after-recreation-or-in-other-shard"
	// tsi1: a shard's series listing ignores the shard's own series tombstones (only the series file hides series)
	staleClass = "series-dropped-from-shard-but-live-in-another-shard"
)

// tsi1: on reopen LogFile.execSeriesEntry skips a series tombstone whose key the (compacted) series file no longer resolves
const replayClass = "series-tombstone-skipped-on-log-replay"

// tsi1: consequence of replayClass: the phantom id keeps Index.MeasurementHasSeries true, so the measurement is never tombstoned
const phantomClass = "measurement-kept-by-series-id-resurrected-on-log-replay"

var classes = []string{"", ghostClass, tombClass, staleClass, phantomClass}

// explains reports whether a stale indexed tag pair can make the index-backed
// measurement listing match p: only `=` and `=~` leaves read the tag value index.
func explains(p *Pred, pairs map[string]struct{}) bool {
	if p == nil {
		return false
	}
	switch p.Op {
	case "OR":
		return explains(p.L, pairs) || explains(p.R, pairs)
	case "=", "=~":
		for kv := range pairs {
			i := strings.IndexByte(kv, 0)
			if kv[:i] == p.Key && p.Match(map[string]string{p.Key: kv[i+1:]}) {
				return true
			}
		}
	}
	return false
}

// The classifiers recognise classes of surplus entries in answers of the tsi1
// index (they never make a surplus entry acceptable; they only decide under
// which signature it is reported).
func (h *History) stale(scope []uint64) []*Series {
	if len(scope) != 1 {
		return nil
	}
	return h.m.StaleSeries(scope[0])
}

// classifyTagSurplus handles "m\x00k" and "m\x00k\x00v" entries. filter is the series filter of the question.
func (h *History) classifyTagSurplus(scope []uint64, filter *Pred) func(e *Env, entry string) string {
	return func(e *Env, s string) string {
		if e.Index != "tsi1" {
			return ""
		}
		f := strings.Split(s, "\x00")
		if len(f) < 2 {
			return ""
		}
		match := func(kv string) bool {
			if len(f) == 3 {
				return kv == f[1]+"\x00"+f[2]
			}
			return strings.HasPrefix(kv, f[1]+"\x00")
		}
		if filter == nil { // index-backed listing
			for kv := range h.m.Ghosts(scope, f[0]) {
				if match(kv) {
					return ghostClass
				}
			}
			for kv := range h.m.TombKeys(scope, f[0]) {
				if match(kv) {
					return tombClass
				}
			}
		}
		for _, st := range h.stale(scope) {
			// A stale series also shows up under predicates it does not satisfy: `k != 'v'`
			// is (all series of the measurement, stale ones included) minus (series of
			// k=v, where the tombstones ARE applied).
			if st.Name != f[0] {
				continue
			}
			for k, v := range st.Tags {
				if match(k + "\x00" + v) {
					return staleClass
				}
			}
		}
		return ""
	}
}

func (h *History) classifyMeasSurplus(scope []uint64, p *Pred) func(e *Env, entry string) string {
	return func(e *Env, s string) string {
		if e.Index != "tsi1" {
			return ""
		}
		if explains(p, h.m.Ghosts(scope, s)) {
			return ghostClass
		}
		if explains(p, h.m.TombKeys(scope, s)) {
			return tombClass
		}
		for _, st := range h.stale(scope) {
			if st.Name == s {
				return staleClass
			}
		}
		return ""
	}
}

func (h *History) classifySeriesSurplus(scope []uint64) func(e *Env, entry string) string {
	return func(e *Env, s string) string {
		if e.Index != "tsi1" {
			return ""
		}
		for _, st := range h.stale(scope) {
			if st.key == s {
				return staleClass
			}
		}
		return ""
	}
}

// askAll puts every question of the step to both stores.
func (h *History) askAll() bool {
	qs := h.questions()
	suffix := strings.Join(h.kinds[max(0, len(h.kinds)-3):], ">")
	nontrivial := h.dropSeen && h.churnSinceDrop
	ok := true
	res, _ := ev.Watch(150*time.Second, 15*time.Second, func() {
		for _, e := range h.envs {
			for _, q := range qs {
				if q.TSIOnly && e.Index != "tsi1" {
					continue
				}
				got, err := q.Ask(e)
				r.Count("questions", 1)
				r.Count("q_"+q.Kind, 1)
				if err != nil {
					if strings.HasPrefix(err.Error(), "harness:") {
						fmt.Fprintf(os.Stderr, "%v\n", err)
						os.Exit(ev.ExitBroken)
					}
					if !h.fail("C14/"+q.Kind+"/error/"+e.Index, e, q.Desc, q.Scope, q.Want, nil, nil, nil,
						fmt.Sprintf("%s store: %s on shards %v returned an error: %v", e.Index, q.Desc, q.Scope, err)) {
						ok = false
						return
					}
					continue
				}
				missing, surplus := diff(q.Want, got)
				if len(missing) > 0 {
					if !h.fail("C14/"+q.Kind+"/missing/"+e.Index, e, q.Desc, q.Scope, q.Want, got, missing, surplus,
						fmt.Sprintf("%s store: %s on shards %v omits %q which the live series require (want %q, got %q)", e.Index, q.Desc, q.Scope, showAll(missing), showAll(q.Want), showAll(got))) {
						ok = false
						return
					}
				}
				if len(surplus) > 0 {
					// group the surplus entries by recognised class: one root cause, one signature
					groups := map[string][]string{}
					for _, s := range surplus {
						c := ""
						if q.Classify != nil {
							c = q.Classify(e, s)
						}
						if c == "" && e.Index == "tsi1" && h.reopened {
							// an entry of a measurement without live series that a resurrected id keeps un-tombstoned
							m := strings.SplitN(s, "\x00", 2)[0]
							if !h.m.measLive(q.Scope, m) && e.PhantomInMeasurement(q.Scope, m) {
								c = phantomClass
							}
						}
						groups[c] = append(groups[c], s)
					}
					for _, c := range classes {
						sp := groups[c]
						if len(sp) == 0 {
							continue
						}
						sig := "C14/" + q.Kind + "/lingering/" + e.Index
						if c != "" {
							sig = "C14/lingering/" + e.Index + "/" + c
							r.Count("surplus_answers_of_class_"+c, 1)
						}
						dataSurvived := false
						if c == "" {
							// diagnosis only: is the answer still wrong once the index is at rest?
							e.WaitTSI()
							if again, err := q.Ask(e); err == nil {
								h.settled = append([]string{fmt.Sprintf("%d entries:", len(again))}, showAll(again)...)
							}
							h.settled = append(h.settled, e.lastNames...)
							for _, id := range q.Scope {
								live := h.m.Live([]uint64{id})
								for k := range e.DataSeries(id) {
									if _, ok := live[k]; !ok {
										h.settled = append(h.settled, fmt.Sprintf("shard %d still holds DATA (cache/TSM key) of %s, which the model saw deleted", id, show(k)))
										dataSurvived = true
									}
								}
							}
							for _, s := range sp {
								h.settled = append(h.settled, e.MeasurementDetail(q.Scope, strings.SplitN(s, "\x00", 2)[0])...)
							}
						}
						if dataSurvived {
							// the index agrees with data that a delete should have removed: delete-path cause (C02 / C10 territory)
							sig += "/data-survived-delete"
						}
						if !h.fail(sig, e, q.Desc, q.Scope, q.Want, got, missing, sp,
							fmt.Sprintf("%s store: %s on shards %v returns %q which no live series justifies (want %q, got %q)", e.Index, q.Desc, q.Scope, showAll(sp), showAll(q.Want), showAll(got))) {
							ok = false
							return
						}
					}
				}
				if nontrivial {
					r.Nontrivial(q.Kind + "|" + q.Ops + "|" + e.Index + "|" + suffix)
					r.Count("questions_after_drop_and_compaction_or_reopen", 1)
				}
			}
			if !h.askNumbers(e) {
				ok = false
				return
			}
		}
	})
	if res != ev.Finished {
		r.Inconclusive(fmt.Sprintf("%s: questions after %s did not finish (deadlock evidence=%v); history abandoned", h.caseID, h.ops[len(h.ops)-1], res == ev.Deadlocked))
		h.dead = true
		return false
	}
	return ok
}

// askNumbers compares the exact cardinalities and sanity-checks the estimates.
func (h *History) askNumbers(e *Env) bool {
	all := h.m.Shards
	num := func(kind, desc string, scope []uint64, want, got int64) bool {
		r.Count("questions", 1)
		r.Count("q_"+kind, 1)
		if want == got {
			return true
		}
		dir := "high"
		if got < want {
			dir = "low"
		}
		var detail []string
		for _, id := range scope {
			detail = append(detail, e.SeriesIDDetail(id)...)
		}
		sig := "C14/" + kind + "/" + dir + "/" + e.Index
		if dir == "high" && e.Index == "tsi1" && h.reopened && int64(len(e.DeletedIDs(scope))) == got-want {
			// every surplus id is one the series file has deleted: one root cause, one signature
			sig = "C14/cardinality-high/tsi1/" + replayClass
			r.Count("surplus_answers_of_class_"+replayClass, 1)
		}
		return h.fail(sig, e, desc, scope, []string{fmt.Sprint(want)}, append([]string{fmt.Sprint(got)}, detail...), nil, nil,
			fmt.Sprintf("%s store: %s = %d but %d series are live", e.Index, desc, got, want))
	}
	c, err := e.SeriesCardinality()
	if err != nil {
		return h.fail("C14/series-cardinality/error/"+e.Index, e, "SeriesCardinality", all, nil, nil, nil, nil, err.Error())
	}
	if !num("series-cardinality", "Store.SeriesCardinality(db0)", all, int64(len(h.m.Live(all))), c) {
		return false
	}
	for _, id := range all {
		n, err := e.ShardSeriesN(id)
		if err != nil {
			return h.fail("C14/shard-series-n/error/"+e.Index, e, "Shard.SeriesN", []uint64{id}, nil, nil, nil, nil, err.Error())
		}
		if !num("shard-series-n", fmt.Sprintf("Shard(%d).SeriesN()", id), []uint64{id}, int64(len(h.m.Live([]uint64{id}))), n) {
			return false
		}
	}
	// sketch-based estimates (every fourth step: merging HLL sketches is costly under -race)
	if len(h.ops)%4 != 0 {
		return true
	}
	ss, ts, mc, err := e.SketchEstimates()
	if err != nil {
		return h.fail("C14/sketches/error/"+e.Index, e, "SeriesSketches / MeasurementsCardinality", all, nil, nil, nil, nil, err.Error())
	}
	r.Count("q_sketch-estimates", 1)
	if ss < 0 || ts < 0 || mc < 0 {
		return h.fail("C14/sketch-estimate-negative/"+e.Index, e, "SeriesSketches / MeasurementsCardinality", all, nil,
			[]string{fmt.Sprintf("series sketch=%d tombstone sketch=%d measurement estimate=%d", ss, ts, mc)}, nil, nil,
			fmt.Sprintf("%s store: negative sketch estimate (series %d, tombstoned %d, measurements %d)", e.Index, ss, ts, mc))
	}
	// estimates are not claimed exact by the property: only recorded
	if live := int64(len(h.m.Live(all))); ss-ts != live {
		r.Count("sketch_series_estimate_differs_from_live_count_"+e.Index, 1)
	} else {
		r.Count("sketch_series_estimate_equals_live_count_"+e.Index, 1)
	}
	return true
}

var hangN int32

// saveHang keeps the goroutine dump of the first few hung operations for diagnosis.
func saveHang(caseID, what, dump string) {
	n := atomic.AddInt32(&hangN, 1)
	if n > 3 {
		return
	}
	root := os.Getenv("VERIF_ROOT")
	if root == "" {
		root = "/verif"
	}
	os.WriteFile(filepath.Join(root, "logs", fmt.Sprintf("c14.hang.%d.txt", n)), []byte(caseID+": "+what+"\n\n"+dump), 0o644)
}

func max(a, b int) int {
	if a > b {
		return a
	}
	return b
}
