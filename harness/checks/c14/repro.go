package main

import (
	"fmt"
	"os"
	"path/filepath"
	"strings"
	"time"

	"github.com/influxdata/influxql"

	"verifharness/internal/ev"
)

// Minimal reproductions of the findings of this check against the real code:
//
//	C14_REPRO=<name> /verif/run C14 quick
//
// Each scenario runs a short fixed op list on an inmem and a tsi1 store and
// reports the listed question through the normal violation channel.

type reproStep struct {
	write  string // "shard measurement k=v,k=v ts"  (tags may be "-")
	writeN string // "shard measurement n": one batch of n series measurement,host=h000.. at the shard's window start
	drop   string // DROP SERIES FROM <measurement> WHERE <key> = <value>
	dropM  string // DROP MEASUREMENT
	window string // DELETE FROM <measurement> WHERE time >= <min> AND time <= <max>
	reopen bool
	sfile  bool // explicit series-file compaction
	tsi    bool // explicit tsi compaction + wait
}

type reproCase struct {
	maxLog int64
	shards []uint64
	steps  []reproStep
	ask    string // "tag-values:<key>" | "tag-keys" | "measurements-by-tag:<key>=<value>"
	sig    string
}

var repros = map[string]reproCase{
	// tsi1 tombstones tag keys / values only together with the measurement
	"tsi1-tag-value-of-dropped-series": {
		maxLog: 1 << 20, shards: []uint64{1},
		steps: []reproStep{
			{write: "1 cpu host=a 1000"},
			{write: "1 cpu host=b 1001"},
			{drop: "cpu host a"},
		},
		ask: "tag-values:host", sig: "C14/lingering/tsi1/" + ghostClass,
	},
	"tsi1-measurement-by-tag-of-dropped-series": {
		maxLog: 1 << 20, shards: []uint64{1},
		steps: []reproStep{
			{write: "1 cpu host=a 1000"},
			{write: "1 cpu host=b 1001"},
			{drop: "cpu host a"},
		},
		ask: "measurements-by-tag:host=a", sig: "C14/lingering/tsi1/" + ghostClass,
	},
	// FileSet.MeasurementTagKeysByExpr ignores tag-key tombstones
	"tsi1-tombstoned-tag-key": {
		maxLog: 1, shards: []uint64{1},
		steps: []reproStep{
			{write: "1 cpu host=a,dc=1 1000"},
			{dropM: "cpu"},
			{write: "1 cpu host=a 1001"},
		},
		ask: "tag-keys", sig: "C14/lingering/tsi1/" + tombClass,
	},
	"tsi1-tombstoned-tag-value": {
		maxLog: 1, shards: []uint64{1},
		steps: []reproStep{
			{write: "1 cpu host=a,dc=1 1000"},
			{dropM: "cpu"},
			{write: "1 cpu host=a 1001"},
		},
		ask: "tag-values:dc", sig: "C14/lingering/tsi1/" + tombClass,
	},
	// a shard's series listing ignores the shard's own series tombstones
	"tsi1-series-dropped-from-one-shard": {
		maxLog: 1, shards: []uint64{1, 2},
		steps: []reproStep{
			{write: "1 cpu host=a 1000"},
			{write: "2 cpu host=a 2000"},
			{window: "cpu 1000 1999"},
		},
		ask: "series:1:cpu", sig: "C14/lingering/tsi1/" + staleClass,
	},
	// tsi1 log replay skips a series tombstone whose key the compacted series file no longer resolves
	"tsi1-cardinality-after-sfile-compaction-and-reopen": {
		maxLog: 256, shards: []uint64{1},
		steps: []reproStep{
			{writeN: "1 cpu 400"}, // every partition's log file exceeds 256 bytes and is compacted to an index file
			{drop: "cpu host h000"},
			{sfile: true},
			{reopen: true},
		},
		ask: "cardinality", sig: "C14/cardinality-high/tsi1/" + replayClass,
	},
	// ... and the phantom id keeps its measurement listed after the measurement is dropped
	"tsi1-measurement-lingers-after-replay-skip": {
		maxLog: 256, shards: []uint64{1},
		steps: []reproStep{
			{writeN: "1 cpu 400"},
			{drop: "cpu host h000"},
			{sfile: true},
			{reopen: true},
			{dropM: "cpu"},
		},
		ask: "measurements", sig: "C14/lingering/tsi1/" + phantomClass,
	},
	"tsi1-tombstoned-tag-key-other-shard": {
		maxLog: 1, shards: []uint64{1, 2},
		steps: []reproStep{
			{write: "1 cpu dc=1 1000"},
			{write: "2 cpu host=a 2000"},
			{drop: "cpu dc 1"},
		},
		ask: "tag-keys", sig: "C14/lingering/tsi1/" + tombClass,
	},
}

// reproDeleteDeadlock shows the hang the delete work-around of this check avoids
// (deadlock freedom is C19's subject; reported to the coordinator, not judged here).
func reproDeleteDeadlock(dir string) {
	e := &Env{Root: filepath.Join(dir, "tsi1"), Index: "tsi1", ShardIDs: []uint64{1}, MaxLog: 1}
	if err := e.Open(); err != nil {
		fmt.Fprintf(os.Stderr, "harness: open: %v\n", err)
		os.Exit(ev.ExitBroken)
	}
	e.Write(1, []Pt{{newSeries("cpu", map[string]string{"host": "a"}), 1000}})
	e.Write(1, []Pt{{newSeries("mem", map[string]string{"host": "a"}), 1000}})
	e.WaitTSI()
	res, dump := ev.Watch(20*time.Second, 5*time.Second, func() {
		// DROP SERIES WHERE host = 'a' over two measurements, as one statement
		e.Store.DeleteSeries(dbName, nil, leaf("host", "=", "a").Expr())
	})
	r.Eval(1)
	fmt.Printf("repro tsi1-delete-deadlock: MaxIndexLogFileSize=1; write cpu,host=a; write mem,host=a; Store.DeleteSeries(db0, nil, host = 'a') finished=%v deadlock-evidence=%v\n", res == ev.Finished, res == ev.Deadlocked)
	if res != ev.Finished {
		r.Inconclusive("Store.DeleteSeries over two measurements did not finish (C19's subject)")
		saveHang("repro/tsi1-delete-deadlock", "Store.DeleteSeries(db0, nil, host = 'a')", dump)
		return
	}
	e.Close()
}

func runRepro(name, dir string) {
	if name == "tsi1-delete-deadlock" {
		reproDeleteDeadlock(dir)
		return
	}
	rc, ok := repros[name]
	if !ok {
		var names []string
		for n := range repros {
			names = append(names, n)
		}
		fmt.Fprintf(os.Stderr, "harness: unknown C14_REPRO %q (have %v)\n", name, names)
		os.Exit(ev.ExitBroken)
	}
	var ops []string
	answers := map[string][]string{}
	for _, index := range []string{"inmem", "tsi1"} {
		e := &Env{Root: filepath.Join(dir, index), Index: index, ShardIDs: rc.shards, MaxLog: rc.maxLog}
		if err := e.Open(); err != nil {
			fmt.Fprintf(os.Stderr, "harness: open: %v\n", err)
			os.Exit(ev.ExitBroken)
		}
		ops = ops[:0]
		for _, st := range rc.steps {
			var err error
			switch {
			case st.write != "":
				var shard uint64
				var meas, tags string
				var ts int64
				fmt.Sscan(st.write, &shard, &meas, &tags, &ts)
				tm := map[string]string{}
				if tags != "-" {
					for _, kv := range strings.Split(tags, ",") {
						p := strings.SplitN(kv, "=", 2)
						tm[p[0]] = p[1]
					}
				}
				ops = append(ops, fmt.Sprintf("write shard=%d %s,%s @%d", shard, meas, tags, ts))
				err = e.Write(shard, []Pt{{newSeries(meas, tm), ts}})
			case st.writeN != "":
				var shard uint64
				var meas string
				var n int
				fmt.Sscan(st.writeN, &shard, &meas, &n)
				var pts []Pt
				for i := 0; i < n; i++ {
					pts = append(pts, Pt{newSeries(meas, map[string]string{"host": fmt.Sprintf("h%03d", i)}), int64(shard) * 1000})
				}
				ops = append(ops, fmt.Sprintf("write shard=%d one batch of %d series %s,host=h000..h%03d", shard, n, meas, n-1))
				err = e.Write(shard, pts)
			case st.drop != "":
				f := strings.Fields(st.drop)
				ops = append(ops, fmt.Sprintf("DROP SERIES FROM %q WHERE %s = '%s'", f[0], f[1], f[2]))
				err = e.Delete(Source{Name: f[0]}, leaf(f[1], "=", f[2]), false, 0, 0)
			case st.window != "":
				var meas string
				var min, max int64
				fmt.Sscan(st.window, &meas, &min, &max)
				ops = append(ops, fmt.Sprintf("DELETE FROM %q WHERE time >= %d AND time <= %d", meas, min, max))
				err = e.Delete(Source{Name: meas}, nil, true, min, max)
			case st.dropM != "":
				ops = append(ops, fmt.Sprintf("DROP MEASUREMENT %q", st.dropM))
				err = e.DropMeasurement(st.dropM)
			case st.sfile:
				ops = append(ops, "series-file compaction")
				_, err = e.CompactSFile()
			case st.reopen:
				ops = append(ops, "reopen")
				err = e.Reopen()
			case st.tsi:
				ops = append(ops, "tsi-compact")
				e.CompactTSI()
			}
			if err != nil {
				fmt.Fprintf(os.Stderr, "harness: repro step failed: %v\n", err)
				os.Exit(ev.ExitBroken)
			}
		}
		var got []string
		var err error
		switch {
		case strings.HasPrefix(rc.ask, "tag-values:"):
			got, err = e.TagValues(rc.shards, nameSel("=", strings.TrimPrefix(rc.ask, "tag-values:")).Expr("_tagKey"))
		case strings.HasPrefix(rc.ask, "series:"):
			f := strings.SplitN(rc.ask, ":", 3)
			var shard uint64
			fmt.Sscan(f[1], &shard)
			if index == "tsi1" {
				got, err = e.SeriesByExpr([]uint64{shard}, f[2], nil)
			} else {
				// the inmem index is per database: the per-shard answer is derived from the shard's series count
				n, _ := e.ShardSeriesN(shard)
				got = []string{}
				if n > 0 {
					got, err = e.SeriesByExpr(rc.shards, f[2], nil)
				}
			}
		case rc.ask == "measurements":
			got, err = e.MeasurementNames(nil)
		case rc.ask == "cardinality":
			var c, n int64
			c, err = e.SeriesCardinality()
			n, _ = e.ShardSeriesN(rc.shards[0])
			got = []string{fmt.Sprintf("SeriesCardinality=%d Shard(%d).SeriesN=%d", c, rc.shards[0], n)}
		case rc.ask == "tag-keys":
			got, err = e.TagKeys(rc.shards, nil)
		case strings.HasPrefix(rc.ask, "measurements-by-tag:"):
			kv := strings.SplitN(strings.TrimPrefix(rc.ask, "measurements-by-tag:"), "=", 2)
			var ex influxql.Expr = leaf(kv[0], "=", kv[1]).Expr()
			got, err = e.MeasurementNames(ex)
		}
		if err != nil {
			fmt.Fprintf(os.Stderr, "harness: repro question failed: %v\n", err)
			os.Exit(ev.ExitBroken)
		}
		answers[index] = showAll(got)
		if os.Getenv("C14_REPRO_DATA") != "" {
			for _, id := range rc.shards {
				fmt.Printf("  %s shard %d data series: %q\n", index, id, showAll(sortedKeys(e.DataSeries(id))))
			}
		}
		e.Close()
	}
	r.Eval(1)
	fmt.Printf("repro %s: ops=%q question=%s inmem=%q tsi1=%q\n", name, ops, rc.ask, answers["inmem"], answers["tsi1"])
	if fmt.Sprint(answers["inmem"]) != fmt.Sprint(answers["tsi1"]) {
		r.Violation(rc.sig, "repro/"+name, fmt.Sprintf("after %q: %s answers inmem=%q tsi1=%q", ops, rc.ask, answers["inmem"], answers["tsi1"]),
			map[string]interface{}{"ops": ops, "question": rc.ask, "inmem": answers["inmem"], "tsi1": answers["tsi1"]})
	}
}
