package main

import (
	"bufio"
	"bytes"
	"encoding/json"
	"fmt"
	"io"
	"os"
	"os/exec"
	"path/filepath"
	"strings"
	"sync"

	"verifharness/internal/ev"
)

// Under -race all histories of one process contend on process-wide locks of
// the race runtime and of the address space (every store open mmaps series
// segments, every tsi compaction allocates sketches), so 16 histories in one
// process use ~2 cores. The coordinator (the process ev.Supervise watches)
// therefore runs the histories in worker PROCESSES. A worker reads jobs
// ("idx seed" lines) on stdin and writes events (JSON lines) on fd 3; the
// coordinator applies them to the ev.Run. Verdict plumbing stays in one place.

type reporter interface {
	Count(name string, n int64)
	Nontrivial(key string)
	Violation(signature, caseID, what string, witness interface{}) bool
	Inconclusive(why string)
	Begin(caseID string, input interface{})
	Eval(n int)
	Sample(v interface{})
	WantSample() bool
}

type event struct {
	T       string           `json:"t"` // begin | flush | violation | inconclusive | sample | done
	Case    string           `json:"case,omitempty"`
	Input   json.RawMessage  `json:"input,omitempty"`
	Counts  map[string]int64 `json:"counts,omitempty"`
	Keys    []string         `json:"keys,omitempty"`
	Evals   int              `json:"evals,omitempty"`
	Sig     string           `json:"sig,omitempty"`
	What    string           `json:"what,omitempty"`
	Witness json.RawMessage  `json:"witness,omitempty"`
	Sample  json.RawMessage  `json:"sample,omitempty"`
}

// pipeRep is the worker side: counters and distinctness keys are batched per history.
type pipeRep struct {
	mu      sync.Mutex
	enc     *json.Encoder
	counts  map[string]int64
	keys    map[string]struct{}
	evals   int
	known   map[string]bool
	sampled bool
}

func (p *pipeRep) send(e event) {
	if err := p.enc.Encode(e); err != nil {
		fmt.Fprintf(os.Stderr, "harness: worker cannot report: %v\n", err)
		os.Exit(ev.ExitBroken)
	}
}

func (p *pipeRep) Count(name string, n int64) {
	p.mu.Lock()
	p.counts[name] += n
	p.mu.Unlock()
}
func (p *pipeRep) Nontrivial(key string) {
	p.mu.Lock()
	p.keys[key] = struct{}{}
	p.mu.Unlock()
}
func (p *pipeRep) Eval(n int) {
	p.mu.Lock()
	p.evals += n
	p.mu.Unlock()
}
func (p *pipeRep) Violation(sig, caseID, what string, witness interface{}) bool {
	wb, err := json.Marshal(witness)
	if err != nil {
		wb, _ = json.Marshal(fmt.Sprintf("%+v", witness))
	}
	p.mu.Lock()
	defer p.mu.Unlock()
	p.send(event{T: "violation", Sig: sig, Case: caseID, What: what, Witness: wb})
	return p.known[sig]
}
func (p *pipeRep) Inconclusive(why string) {
	p.mu.Lock()
	defer p.mu.Unlock()
	p.send(event{T: "inconclusive", What: why})
}
func (p *pipeRep) Begin(caseID string, input interface{}) {
	b, _ := json.Marshal(input)
	p.mu.Lock()
	defer p.mu.Unlock()
	p.send(event{T: "begin", Case: caseID, Input: b})
}
func (p *pipeRep) Sample(v interface{}) {
	b, _ := json.Marshal(v)
	p.mu.Lock()
	defer p.mu.Unlock()
	p.sampled = true
	p.send(event{T: "sample", Sample: b})
}
func (p *pipeRep) WantSample() bool {
	p.mu.Lock()
	defer p.mu.Unlock()
	return !p.sampled
}
func (p *pipeRep) flush(done bool) {
	p.mu.Lock()
	defer p.mu.Unlock()
	e := event{T: "flush", Counts: p.counts, Evals: p.evals}
	for k := range p.keys {
		e.Keys = append(e.Keys, k)
	}
	p.send(e)
	p.counts, p.keys, p.evals = map[string]int64{}, map[string]struct{}{}, 0
	if done {
		p.send(event{T: "done"})
	}
}

// workerMain runs histories handed over on stdin.
func workerMain() {
	root := os.Getenv("VERIF_ROOT")
	if root == "" {
		root = "/verif"
	}
	known := map[string]bool{}
	if b, err := os.ReadFile(filepath.Join(root, "known_findings.json")); err == nil {
		var all []ev.Finding
		if json.Unmarshal(b, &all) == nil {
			for _, f := range all {
				if f.Property == "C14" && f.Status == "known" {
					known[f.Signature] = true
				}
			}
		}
	}
	p := &pipeRep{enc: json.NewEncoder(os.NewFile(3, "events")), counts: map[string]int64{}, keys: map[string]struct{}{}, known: known}
	r = p
	dir := os.Getenv("C14_WORKER_DIR")
	sc := bufio.NewScanner(os.Stdin)
	for sc.Scan() {
		var idx int
		var seed int64
		if _, err := fmt.Sscan(sc.Text(), &idx, &seed); err != nil {
			fmt.Fprintf(os.Stderr, "harness: bad job line %q\n", sc.Text())
			os.Exit(ev.ExitBroken)
		}
		d := filepath.Join(dir, fmt.Sprintf("h%d", idx))
		oneHistory(fmt.Sprintf("hist/%d", idx), seed, idx, d)
		os.RemoveAll(d)
		p.flush(true)
	}
}

type job struct {
	id   string
	seed int64
	idx  int
}

// coordinate runs the jobs in worker processes and applies their events to run.
func coordinate(run *ev.Run, jobs []job, root string, workers int) {
	if workers > len(jobs) {
		workers = len(jobs)
	}
	jobCh := make(chan job, len(jobs))
	for _, j := range jobs {
		jobCh <- j
	}
	close(jobCh)

	var crashMu sync.Mutex
	crashed := false
	var cmds []*exec.Cmd
	var cmdMu sync.Mutex
	var wg sync.WaitGroup
	for w := 0; w < workers; w++ {
		wg.Add(1)
		go func(w int) {
			defer wg.Done()
			pr, pw, err := os.Pipe()
			if err != nil {
				fmt.Fprintf(os.Stderr, "harness: pipe: %v\n", err)
				os.Exit(ev.ExitBroken)
			}
			cmd := exec.Command(os.Args[0])
			cmd.Env = append(os.Environ(), "VERIF_CHILD=1", "C14_WORKER=1", "C14_WORKER_DIR="+filepath.Join(root, fmt.Sprintf("w%d", w)))
			cmd.ExtraFiles = []*os.File{pw}
			var stderr bytes.Buffer
			cmd.Stderr = &stderr
			stdin, _ := cmd.StdinPipe()
			if err := cmd.Start(); err != nil {
				fmt.Fprintf(os.Stderr, "harness: cannot start worker: %v\n", err)
				os.Exit(ev.ExitBroken)
			}
			pw.Close()
			cmdMu.Lock()
			cmds = append(cmds, cmd)
			cmdMu.Unlock()

			var lastCase string
			var lastInput json.RawMessage
			next := func() bool {
				j, ok := <-jobCh
				if !ok {
					stdin.Close()
					return false
				}
				fmt.Fprintf(stdin, "%d %d\n", j.idx, j.seed)
				return true
			}
			busy := next()
			rd := bufio.NewReaderSize(pr, 1<<20)
			for busy {
				line, err := rd.ReadBytes('\n')
				if err != nil {
					break // worker died (or closed the pipe): handled after Wait
				}
				var e event
				if json.Unmarshal(line, &e) != nil {
					continue
				}
				switch e.T {
				case "begin":
					lastCase, lastInput = e.Case, e.Input
				case "flush":
					for k, n := range e.Counts {
						run.Count(k, n)
					}
					for _, k := range e.Keys {
						run.Nontrivial(k)
					}
					run.Eval(e.Evals)
				case "violation":
					run.Violation(e.Sig, e.Case, e.What, e.Witness)
				case "inconclusive":
					run.Inconclusive(e.What)
				case "sample":
					if run.WantSample() {
						run.Sample(e.Sample)
					}
				case "done":
					busy = next()
				}
			}
			io.Copy(io.Discard, rd)
			err = cmd.Wait()
			pr.Close()
			if err == nil {
				return
			}
			// The worker died: the crash of a target (or of the harness) must
			// reach ev.Supervise exactly as if it had happened in this process.
			crashMu.Lock()
			defer crashMu.Unlock()
			if crashed {
				return
			}
			crashed = true
			cmdMu.Lock()
			for _, c := range cmds {
				if c != cmd && c.Process != nil {
					c.Process.Kill()
				}
			}
			cmdMu.Unlock()
			code := 2
			if ee, ok := err.(*exec.ExitError); ok && ee.ExitCode() == ev.ExitBroken {
				code = ev.ExitBroken
			}
			if lastCase != "" {
				run.Begin(lastCase, lastInput)
			}
			os.Stderr.Write(stderr.Bytes())
			if !strings.HasSuffix(stderr.String(), "\n") {
				os.Stderr.WriteString("\n")
			}
			os.RemoveAll(root)
			os.Exit(code)
		}(w)
	}
	wg.Wait()
}
