package main

import (
	"regexp"
	"sort"
	"strings"

	"github.com/influxdata/influxql"
)

// ---------------------------------------------------------------- series

// Series is one series of the model: a measurement and a tag set.
type Series struct {
	Name string
	Tags map[string]string
	key  string
}

// seriesKey is the canonical identity of a series inside the model and in
// every compared answer (NOT the line-protocol key: no escaping involved).
func seriesKey(name string, tags map[string]string) string {
	ks := make([]string, 0, len(tags))
	for k := range tags {
		ks = append(ks, k)
	}
	sort.Strings(ks)
	var b strings.Builder
	b.WriteString(name)
	for _, k := range ks {
		b.WriteByte(0)
		b.WriteString(k)
		b.WriteByte(1)
		b.WriteString(tags[k])
	}
	return b.String()
}

func newSeries(name string, tags map[string]string) *Series {
	return &Series{Name: name, Tags: tags, key: seriesKey(name, tags)}
}

// show renders a canonical key for humans.
func show(k string) string {
	k = strings.ReplaceAll(k, "\x00", ",")
	return strings.ReplaceAll(k, "\x01", "=")
}

func showAll(ks []string) []string {
	out := make([]string, len(ks))
	for i, k := range ks {
		out[i] = show(k)
	}
	return out
}

// ---------------------------------------------------------------- predicates

// Pred is a tag predicate: a leaf (key op value) or AND / OR of two predicates.
// It is evaluated by the model with InfluxQL tag semantics (a missing tag is the
// empty string) and converted to an influxql AST for the target.
type Pred struct {
	Op   string // "=", "!=", "=~", "!~", "AND", "OR"
	Key  string
	Val  string // literal, or regular expression source for =~ / !~
	re   *regexp.Regexp
	L, R *Pred
}

func leaf(key, op, val string) *Pred {
	p := &Pred{Op: op, Key: key, Val: val}
	if op == "=~" || op == "!~" {
		p.re = regexp.MustCompile(val)
	}
	return p
}

// Match evaluates the predicate on a tag set.
func (p *Pred) Match(tags map[string]string) bool {
	switch p.Op {
	case "AND":
		return p.L.Match(tags) && p.R.Match(tags)
	case "OR":
		return p.L.Match(tags) || p.R.Match(tags)
	}
	v := tags[p.Key] // missing tag == ""
	switch p.Op {
	case "=":
		return v == p.Val
	case "!=":
		return v != p.Val
	case "=~":
		return p.re.MatchString(v)
	case "!~":
		return !p.re.MatchString(v)
	}
	panic("bad pred op " + p.Op)
}

// Expr builds the influxql AST of the predicate.
func (p *Pred) Expr() influxql.Expr {
	switch p.Op {
	case "AND", "OR":
		op := influxql.AND
		if p.Op == "OR" {
			op = influxql.OR
		}
		return &influxql.BinaryExpr{Op: op, LHS: &influxql.ParenExpr{Expr: p.L.Expr()}, RHS: &influxql.ParenExpr{Expr: p.R.Expr()}}
	case "=":
		return &influxql.BinaryExpr{Op: influxql.EQ, LHS: &influxql.VarRef{Val: p.Key}, RHS: &influxql.StringLiteral{Val: p.Val}}
	case "!=":
		return &influxql.BinaryExpr{Op: influxql.NEQ, LHS: &influxql.VarRef{Val: p.Key}, RHS: &influxql.StringLiteral{Val: p.Val}}
	case "=~":
		return &influxql.BinaryExpr{Op: influxql.EQREGEX, LHS: &influxql.VarRef{Val: p.Key}, RHS: &influxql.RegexLiteral{Val: regexp.MustCompile(p.Val)}}
	case "!~":
		return &influxql.BinaryExpr{Op: influxql.NEQREGEX, LHS: &influxql.VarRef{Val: p.Key}, RHS: &influxql.RegexLiteral{Val: regexp.MustCompile(p.Val)}}
	}
	panic("bad pred op " + p.Op)
}

func (p *Pred) String() string {
	if p == nil {
		return "<none>"
	}
	return p.Expr().String()
}

// OpClass names the operators used (for distinctness keys).
func (p *Pred) OpClass() string {
	if p == nil {
		return "none"
	}
	switch p.Op {
	case "AND", "OR":
		return p.Op + "(" + p.L.OpClass() + "," + p.R.OpClass() + ")"
	}
	if p.re != nil && p.re.MatchString("") {
		return p.Op + "e"
	}
	if p.re == nil && p.Val == "" {
		return p.Op + "e"
	}
	return p.Op
}

// hasAnd reports whether an AND occurs in the tree.
func (p *Pred) hasAnd() bool {
	if p == nil {
		return false
	}
	switch p.Op {
	case "AND":
		return true
	case "OR":
		return p.L.hasAnd() || p.R.hasAnd()
	}
	return false
}

// NameSel selects measurements: by exact name, by regular expression or all.
type NameSel struct {
	Op  string // "", "=", "!=", "=~", "!~"
	Val string
	re  *regexp.Regexp
}

func nameSel(op, val string) NameSel {
	n := NameSel{Op: op, Val: val}
	if op == "=~" || op == "!~" {
		n.re = regexp.MustCompile(val)
	}
	return n
}

func (n NameSel) Match(name string) bool {
	switch n.Op {
	case "":
		return true
	case "=":
		return name == n.Val
	case "!=":
		return name != n.Val
	case "=~":
		return n.re.MatchString(name)
	case "!~":
		return !n.re.MatchString(name)
	}
	panic("bad name op")
}

// Expr is the clause on the pseudo tag whose name is given (_name or _tagKey).
func (n NameSel) Expr(pseudo string) influxql.Expr {
	if n.Op == "" {
		return nil
	}
	return leaf(pseudo, n.Op, n.Val).Expr()
}

func (n NameSel) String() string {
	if n.Op == "" {
		return "*"
	}
	return n.Op + n.Val
}

// ---------------------------------------------------------------- model

// Model is the oracle's state: the points every series holds in every shard.
// A series is live in a shard iff it holds >= 1 point there, and live in the
// database iff it is live in some shard.
type Model struct {
	Shards []uint64
	pts    map[uint64]map[string]map[int64]struct{} // shard -> series key -> timestamps
	ser    map[string]*Series

	EverSeries map[string]struct{}
	EverMeas   map[string]struct{}

	// ghosts[shard][measurement]["k\x00v"]: tag pairs that were indexed for the
	// measurement in the shard since the measurement last (re)appeared there.
	// Only used to CLASSIFY a surplus answer, never to accept one.
	ghosts map[uint64]map[string]map[string]struct{}
	// tombKeys[shard][measurement]["k\x00v"]: tag pairs the measurement carried in
	// the shard when it was dropped from it and that no series has carried there
	// since. Only used to CLASSIFY a surplus answer.
	tombKeys map[uint64]map[string]map[string]struct{}

	Drops      int // series that stopped being live in some shard
	Recreated  int // series that became live again in a shard after having been dropped from it
	droppedKey map[uint64]map[string]struct{}
}

func newModel(shards []uint64) *Model {
	m := &Model{Shards: shards, pts: map[uint64]map[string]map[int64]struct{}{}, ser: map[string]*Series{},
		EverSeries: map[string]struct{}{}, EverMeas: map[string]struct{}{},
		ghosts: map[uint64]map[string]map[string]struct{}{}, droppedKey: map[uint64]map[string]struct{}{},
		tombKeys: map[uint64]map[string]map[string]struct{}{}}
	for _, s := range shards {
		m.pts[s] = map[string]map[int64]struct{}{}
		m.ghosts[s] = map[string]map[string]struct{}{}
		m.tombKeys[s] = map[string]map[string]struct{}{}
		m.droppedKey[s] = map[string]struct{}{}
	}
	return m
}

// measLiveIn reports whether the measurement has a live series in the shard.
func (m *Model) measLiveIn(shard uint64, name string) bool {
	for k := range m.pts[shard] {
		if m.ser[k].Name == name {
			return true
		}
	}
	return false
}

// measLive reports whether the measurement has a live series in one of the shards.
func (m *Model) measLive(shards []uint64, name string) bool {
	for _, sh := range shards {
		if m.measLiveIn(sh, name) {
			return true
		}
	}
	return false
}

// Write adds a point.
func (m *Model) Write(shard uint64, s *Series, ts int64) {
	m.ser[s.key] = s
	m.EverSeries[s.key] = struct{}{}
	m.EverMeas[s.Name] = struct{}{}
	sh := m.pts[shard]
	if sh[s.key] == nil {
		if !m.measLiveIn(shard, s.Name) {
			m.ghosts[shard][s.Name] = map[string]struct{}{}
		}
		sh[s.key] = map[int64]struct{}{}
		if _, ok := m.droppedKey[shard][s.key]; ok {
			m.Recreated++
			delete(m.droppedKey[shard], s.key)
		}
		g := m.ghosts[shard][s.Name]
		if g == nil {
			g = map[string]struct{}{}
			m.ghosts[shard][s.Name] = g
		}
		for k, v := range s.Tags {
			g[k+"\x00"+v] = struct{}{}
			delete(m.tombKeys[shard][s.Name], k+"\x00"+v)
		}
	}
	sh[s.key][ts] = struct{}{}
}

// Delete removes the points in [min,max] of the selected series in every shard
// and returns how many (shard, series) pairs stopped being live.
func (m *Model) Delete(names NameSel, pred *Pred, min, max int64) int {
	dropped := 0
	for _, shard := range m.Shards {
		sh := m.pts[shard]
		touched := map[string]bool{}
		for k, tss := range sh {
			s := m.ser[k]
			if !names.Match(s.Name) || (pred != nil && !pred.Match(s.Tags)) {
				continue
			}
			for t := range tss {
				if t >= min && t <= max {
					delete(tss, t)
				}
			}
			if len(tss) == 0 {
				delete(sh, k)
				m.droppedKey[shard][k] = struct{}{}
				dropped++
				touched[s.Name] = true
			}
		}
		for name := range touched {
			if !m.measLiveIn(shard, name) {
				tk := m.tombKeys[shard][name]
				if tk == nil {
					tk = map[string]struct{}{}
					m.tombKeys[shard][name] = tk
				}
				for kv := range m.ghosts[shard][name] {
					tk[kv] = struct{}{}
				}
				delete(m.ghosts[shard], name)
			}
		}
	}
	m.Drops += dropped
	return dropped
}

// WouldEmpty reports whether a delete would leave some selected series without
// points in a shard where it now has some, although the range does not cover
// the shard's whole window (see Assumptions: such deletes are not generated).
func (m *Model) WouldEmpty(names NameSel, pred *Pred, min, max int64) bool {
	for _, shard := range m.Shards {
		for k, tss := range m.pts[shard] {
			s := m.ser[k]
			if !names.Match(s.Name) || (pred != nil && !pred.Match(s.Tags)) {
				continue
			}
			left := 0
			for t := range tss {
				if t < min || t > max {
					left++
				}
			}
			if left == 0 {
				return true
			}
		}
	}
	return false
}

// Live returns the series that are live in at least one of the shards.
func (m *Model) Live(shards []uint64) map[string]*Series {
	out := map[string]*Series{}
	for _, sh := range shards {
		for k := range m.pts[sh] {
			out[k] = m.ser[k]
		}
	}
	return out
}

// Ghosts returns the union of the ghost tag pairs of a measurement over shards.
func (m *Model) Ghosts(shards []uint64, name string) map[string]struct{} {
	out := map[string]struct{}{}
	for _, sh := range shards {
		for kv := range m.ghosts[sh][name] {
			out[kv] = struct{}{}
		}
	}
	return out
}

// StaleSeries returns the series that were dropped from the shard (and not
// re-created there) but are still live in another shard of the database.
func (m *Model) StaleSeries(shard uint64) []*Series {
	var out []*Series
	for k := range m.droppedKey[shard] {
		for _, other := range m.Shards {
			if other != shard && m.pts[other][k] != nil {
				out = append(out, m.ser[k])
				break
			}
		}
	}
	return out
}

// TombKeys returns the union of the tombstoned tag pairs of a measurement over shards.
func (m *Model) TombKeys(shards []uint64, name string) map[string]struct{} {
	out := map[string]struct{}{}
	for _, sh := range shards {
		for k := range m.tombKeys[sh][name] {
			out[k] = struct{}{}
		}
	}
	return out
}

// ---------------------------------------------------------------- expected answers

func sortedKeys(m map[string]struct{}) []string {
	out := make([]string, 0, len(m))
	for k := range m {
		out = append(out, k)
	}
	sort.Strings(out)
	return out
}

// ExpMeasurements: measurements with a live series selected by names and, when
// pred != nil, with a live series matching pred.
func ExpMeasurements(live map[string]*Series, names NameSel, pred *Pred) []string {
	set := map[string]struct{}{}
	for _, s := range live {
		if !names.Match(s.Name) {
			continue
		}
		if pred != nil && !pred.Match(s.Tags) {
			continue
		}
		set[s.Name] = struct{}{}
	}
	return sortedKeys(set)
}

// ExpMeasurementsByTagFilter is the SHOW MEASUREMENTS WHERE <tag> = / =~ form:
// only generated for predicates that cannot match a missing tag, so "some live
// series carries a matching value for the key" is the unambiguous meaning.
func ExpMeasurementsByTagFilter(live map[string]*Series, pred *Pred) []string {
	return ExpMeasurements(live, NameSel{}, pred)
}

// ExpSeries: live series of one measurement matching pred.
func ExpSeries(live map[string]*Series, name string, pred *Pred) []string {
	set := map[string]struct{}{}
	for k, s := range live {
		if s.Name != name {
			continue
		}
		if pred != nil && !pred.Match(s.Tags) {
			continue
		}
		set[k] = struct{}{}
	}
	return sortedKeys(set)
}

// ExpTagKeys: "m\x00k" for every tag key k carried by a live series of m that
// matches filter; measurements restricted by names, keys by keySel.
func ExpTagKeys(live map[string]*Series, names, keySel NameSel, filter *Pred) []string {
	set := map[string]struct{}{}
	for _, s := range live {
		if !names.Match(s.Name) || (filter != nil && !filter.Match(s.Tags)) {
			continue
		}
		for k := range s.Tags {
			if keySel.Match(k) {
				set[s.Name+"\x00"+k] = struct{}{}
			}
		}
	}
	return sortedKeys(set)
}

// ExpTagValues: "m\x00k\x00v" likewise.
func ExpTagValues(live map[string]*Series, names, keySel NameSel, filter *Pred) []string {
	set := map[string]struct{}{}
	for _, s := range live {
		if !names.Match(s.Name) || (filter != nil && !filter.Match(s.Tags)) {
			continue
		}
		for k, v := range s.Tags {
			if keySel.Match(k) {
				set[s.Name+"\x00"+k+"\x00"+v] = struct{}{}
			}
		}
	}
	return sortedKeys(set)
}

// diff returns want-got (missing) and got-want (surplus); both inputs sorted.
func diff(want, got []string) (missing, surplus []string) {
	i, j := 0, 0
	for i < len(want) || j < len(got) {
		switch {
		case j >= len(got) || (i < len(want) && want[i] < got[j]):
			missing = append(missing, want[i])
			i++
		case i >= len(want) || got[j] < want[i]:
			surplus = append(surplus, got[j])
			j++
		default:
			i++
			j++
		}
	}
	return
}
