package main

import (
	"fmt"
	"math/rand"
	"sort"
	"strings"
)

// Small pools: re-creation after a drop is common. They include a measurement
// name with regex-special characters, one needing line-protocol escapes, and
// tag keys / values needing escapes.
var (
	measPool = []string{"cpu", "cpu1", "mem", "m.x+y", "d k,z"}
	tagKeys  = []string{"host", "region", "dc", "t k", "k,e"}
	tagVals  = map[string][]string{
		"host":   {"a", "b", "a.b", "aXb"},
		"region": {"us", "eu", "u,s", "e u", "x=y"},
		"dc":     {"1", "2"},
		"t k":    {"p", "q q"},
		"k,e":    {"z", "z=1"},
	}
	tagProb = map[string]float64{"host": 0.6, "region": 0.55, "dc": 0.4, "t k": 0.3, "k,e": 0.2}

	valRegexes  = []string{`^a`, `a.b`, `^a\.b$`, `u`, `^(us|eu)$`, `.*`, `^$`, `.`, `^[12]$`, `q`, `X|=`, `^(a|)$`, `s$`}
	nameRegexes = []string{`^cpu`, `cpu1`, `m\.x\+y`, `m.x`, `^m`, ` `, `.*`, `z$`, `^(cpu|mem)$`}
	keyRegexes  = []string{`^h`, `o`, ` `, `^(dc|host)$`, `.*`, `,`}
)

const (
	windowSize = 1000
	offsets    = 20
)

func window(shardIdx int) int64 { return int64(shardIdx+1) * windowSize }

// Op is one step of a history.
type Op struct {
	Kind   string   `json:"kind"`
	Shard  uint64   `json:"shard,omitempty"`
	Points []string `json:"points,omitempty"`
	Source string   `json:"from,omitempty"`
	Where  string   `json:"where,omitempty"`
	Min    int64    `json:"min,omitempty"`
	Max    int64    `json:"max,omitempty"`
	Meas   string   `json:"measurement,omitempty"`

	pts  []Pt
	src  Source
	pred *Pred
}

func (o Op) String() string {
	switch o.Kind {
	case "write":
		return fmt.Sprintf("write shard=%d %s", o.Shard, strings.Join(o.Points, " ; "))
	case "drop-series":
		return fmt.Sprintf("DROP SERIES FROM %s WHERE %s", o.Source, o.Where)
	case "delete-all", "delete-window", "delete-partial":
		return fmt.Sprintf("DELETE(%s) FROM %s WHERE %s AND time >= %d AND time <= %d", o.Kind, o.Source, o.Where, o.Min, o.Max)
	case "drop-measurement":
		return fmt.Sprintf("DROP MEASUREMENT %q", o.Meas)
	case "snapshot", "tsm-compact":
		return fmt.Sprintf("%s shard=%d", o.Kind, o.Shard)
	}
	return o.Kind
}

// Gen generates histories.
type Gen struct {
	g      *rand.Rand
	m      *Model
	shards []uint64
	pool   []*Series
	script []Op // forced operations, consumed before random ones
}

func newGen(g *rand.Rand, m *Model) *Gen {
	ge := &Gen{g: g, m: m, shards: m.Shards}
	n := 14 + g.Intn(14)
	seen := map[string]bool{}
	// one measurement gets most series so that predicates split it
	fav := measPool[g.Intn(len(measPool))]
	for len(ge.pool) < n {
		name := measPool[g.Intn(len(measPool))]
		if g.Intn(3) == 0 {
			name = fav
		}
		tags := map[string]string{}
		for _, k := range tagKeys {
			if g.Float64() < tagProb[k] {
				vs := tagVals[k]
				tags[k] = vs[g.Intn(len(vs))]
			}
		}
		s := newSeries(name, tags)
		if seen[s.key] {
			continue
		}
		seen[s.key] = true
		ge.pool = append(ge.pool, s)
	}
	sort.Slice(ge.pool, func(i, j int) bool { return ge.pool[i].key < ge.pool[j].key })
	return ge
}

func (ge *Gen) leaf() *Pred {
	g := ge.g
	key := tagKeys[g.Intn(len(tagKeys))]
	if g.Intn(20) == 0 {
		key = "nokey"
	}
	op := []string{"=", "!=", "=~", "!~"}[g.Intn(4)]
	if op == "=~" || op == "!~" {
		return leaf(key, op, valRegexes[g.Intn(len(valRegexes))])
	}
	val := "zz"
	switch r := g.Intn(10); {
	case r < 8 && key != "nokey":
		vs := tagVals[key]
		val = vs[g.Intn(len(vs))]
	case r == 8:
		val = ""
	}
	return leaf(key, op, val)
}

// Pred returns a random tag predicate.
func (ge *Gen) Pred() *Pred {
	switch r := ge.g.Intn(20); {
	case r < 11:
		return ge.leaf()
	case r < 15:
		return &Pred{Op: "AND", L: ge.leaf(), R: ge.leaf()}
	case r < 18:
		return &Pred{Op: "OR", L: ge.leaf(), R: ge.leaf()}
	case r < 19:
		return &Pred{Op: "AND", L: ge.leaf(), R: &Pred{Op: "OR", L: ge.leaf(), R: ge.leaf()}}
	}
	return &Pred{Op: "OR", L: &Pred{Op: "AND", L: ge.leaf(), R: ge.leaf()}, R: ge.leaf()}
}

// positiveLeaf is a predicate that cannot match a missing tag: key = 'non-empty' or key =~ /re not matching ""/.
func (ge *Gen) positiveLeaf() *Pred {
	g := ge.g
	key := tagKeys[g.Intn(len(tagKeys))]
	if g.Intn(2) == 0 {
		vs := tagVals[key]
		v := vs[g.Intn(len(vs))]
		if g.Intn(10) == 0 {
			v = "zz"
		}
		return leaf(key, "=", v)
	}
	for {
		p := leaf(key, "=~", valRegexes[g.Intn(len(valRegexes))])
		if !p.re.MatchString("") {
			return p
		}
	}
}

func (ge *Gen) source() Source {
	switch r := ge.g.Intn(20); {
	case r < 8:
		return Source{Name: measPool[ge.g.Intn(len(measPool))]}
	case r < 11:
		return Source{Regex: nameRegexes[ge.g.Intn(len(nameRegexes))]}
	}
	return Source{}
}

func (s Source) String() string {
	switch {
	case s.Name != "":
		return fmt.Sprintf("%q", s.Name)
	case s.Regex != "":
		return "/" + s.Regex + "/"
	}
	return "*"
}

func (ge *Gen) shard() (int, uint64) {
	i := ge.g.Intn(len(ge.shards))
	return i, ge.shards[i]
}

func (ge *Gen) write() Op {
	g := ge.g
	_, sh := ge.shard()
	si := 0
	for i, s := range ge.shards {
		if s == sh {
			si = i
		}
	}
	n := 1 + g.Intn(8)
	op := Op{Kind: "write", Shard: sh}
	for i := 0; i < n; i++ {
		s := ge.pool[g.Intn(len(ge.pool))]
		ts := window(si) + int64(g.Intn(offsets))
		op.pts = append(op.pts, Pt{s, ts})
		op.Points = append(op.Points, fmt.Sprintf("%s@%d", show(s.key), ts))
	}
	return op
}

func (ge *Gen) selection(allowAll bool) (Source, *Pred) {
	src := ge.source()
	var pred *Pred
	if ge.g.Intn(7) != 0 {
		pred = ge.Pred()
	}
	if pred == nil && src == (Source{}) && !(allowAll && ge.g.Intn(3) == 0) {
		pred = ge.Pred()
	}
	return src, pred
}

// Next returns the next operation. early forces writes.
func (ge *Gen) Next(early bool) Op {
	g := ge.g
	if early {
		return ge.write()
	}
	if len(ge.script) > 0 {
		op := ge.script[0]
		ge.script = ge.script[1:]
		return op
	}
	r := g.Intn(100)
	switch {
	case r < 40:
		return ge.write()
	case r < 52:
		src, pred := ge.selection(true)
		return Op{Kind: "drop-series", Source: src.String(), Where: pred.String(), src: src, pred: pred}
	case r < 57:
		src, pred := ge.selection(false)
		return Op{Kind: "delete-all", Source: src.String(), Where: pred.String(), src: src, pred: pred, Min: 0, Max: 1000000}
	case r < 63:
		src, pred := ge.selection(true)
		si, _ := ge.shard()
		return Op{Kind: "delete-window", Source: src.String(), Where: pred.String(), src: src, pred: pred, Min: window(si), Max: window(si) + windowSize - 1}
	case r < 70:
		src, pred := ge.selection(true)
		si, _ := ge.shard()
		a := g.Intn(offsets)
		b := a + g.Intn(offsets-a)
		if a == 0 && b == offsets-1 {
			b--
		}
		op := Op{Kind: "delete-partial", Source: src.String(), Where: pred.String(), src: src, pred: pred, Min: window(si) + int64(a), Max: window(si) + int64(b)}
		if ge.m.WouldEmpty(src.sel(), pred, op.Min, op.Max) {
			// never generated: see Assumptions (series emptied by accumulated partial deletes)
			op.Kind = "delete-window"
			op.Min, op.Max = window(si), window(si)+windowSize-1
		}
		return op
	case r < 76:
		return Op{Kind: "drop-measurement", Meas: measPool[g.Intn(len(measPool))]}
	case r < 82:
		return Op{Kind: "tsi-compact"}
	case r < 86:
		return Op{Kind: "sfile-compact"}
	case r < 91:
		_, sh := ge.shard()
		return Op{Kind: "snapshot", Shard: sh}
	case r < 94:
		_, sh := ge.shard()
		return Op{Kind: "tsm-compact", Shard: sh}
	}
	return Op{Kind: "reopen"}
}

// writeOf writes the given series into shard index si.
func (ge *Gen) writeOf(si int, ss []*Series) Op {
	op := Op{Kind: "write", Shard: ge.shards[si]}
	for _, s := range ss {
		ts := window(si) + int64(ge.g.Intn(offsets))
		op.pts = append(op.pts, Pt{s, ts})
		op.Points = append(op.Points, fmt.Sprintf("%s@%d", show(s.key), ts))
	}
	return op
}

// scriptRecreate queues the sequence "series alive in two shards, dropped from
// one of them by a DELETE over that shard's window (they keep their series
// ids), written to it again, more series, index compaction, reopen": the
// tombstones and the re-creations then meet in index compactions.
func (ge *Gen) scriptRecreate() {
	g := ge.g
	a := g.Intn(len(ge.shards))
	b := (a + 1 + g.Intn(len(ge.shards)-1)) % len(ge.shards)
	perm := g.Perm(len(ge.pool))
	nx := 4 + g.Intn(5)
	var xs, others []*Series
	for i, pi := range perm {
		if i < nx {
			xs = append(xs, ge.pool[pi])
		} else {
			others = append(others, ge.pool[pi])
		}
	}
	src := Source{}
	var pred *Pred
	ge.script = append(ge.script,
		ge.writeOf(b, xs),
		ge.writeOf(a, append(append([]*Series(nil), xs...), others[0])),
		Op{Kind: "delete-window", Source: src.String(), Where: pred.String(), src: src, pred: pred, Min: window(a), Max: window(a) + windowSize - 1},
		ge.writeOf(a, xs),
		ge.writeOf(a, others[1:]),
		Op{Kind: "tsi-compact"},
		Op{Kind: "reopen"},
	)
}
