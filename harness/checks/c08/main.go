// C08 — every point is routed to exactly one, well-defined shard.
//
// Monitor: the REAL coordinator.PointsWriter (MapShards, and the full
// WritePointsPrivileged with recording TSDBStore / ShardWriter doubles) is
// driven against REAL metadata: one single-node meta service (raft + HTTP on
// loopback) per worker and two meta.Clients acting as two data nodes. Every
// history builds a fresh database through the client API (lazy group
// creation, PrecreateShardGroups, altered shard durations, TruncateShardGroups,
// DeleteShardGroup, replication / node-count changes) and interleaves batches.
//
// Oracle (a function of the metadata read back AFTER the call, the batch, and
// an independent FNV-64a over an independently built canonical series key):
// conservation, designation, shard-by-hash, retention with clock brackets,
// end-to-end delivery to the designated owners, and independence from batch
// companions, tag order and node.
package main

import (
	"fmt"
	"math"
	"math/rand"
	"os"
	"path/filepath"
	"runtime"
	"strings"
	"sync"
	"time"

	"github.com/influxdata/influxdb/coordinator"
	"github.com/influxdata/influxdb/models"
	"github.com/influxdata/influxdb/services/meta"
	"github.com/influxdata/influxdb/tsdb"

	"verifharness/internal/ev"
)

func main() { ev.Supervise("C08", body) }

var r *ev.Run

const rpName = "rp"

func body() {
	r = ev.Start("C08", "exploration")
	r.Rule = "a case is one metadata history on a fresh database of a real meta service (policy duration x shard duration x replication x node count, then 5-9 steps drawn from: explicit/lazy group creation, PrecreateShardGroups, alter shard duration, TruncateShardGroups, DeleteShardGroup, alter replication, add/remove data node) with 1-2 judged batches per step plus independence probes; batches of 1-200 points over 3-6 series aim timestamps at group start/end +-1ns, truncation times +-1ns, aligned period boundaries, retention cut-off, Min/MaxNanoTime and duplicates. A batch is non-trivial when its kept points span >=2 groups or touch a truncated or clipped group; distinct by (duration, shard durations, replication, nodes, groups spanned, truncated/clipped/deleted-range touched, map/write path, client)."
	r.Assumptions = []string{
		"metadata backend: a real single-node meta service per worker with two real meta.Clients (HTTP snapshots of the marshalled metadata), not an in-process meta.Data double",
		"the designated group/shard is computed from the metadata the routing client holds right after the call; between calls no other actor changes the metadata",
		"retention verdicts use clock brackets [t0,t1] around the call on the same wall clock (dropped => ts < t1-D, kept => ts >= t0-D); the wall clock is assumed not to step backwards by more than the call duration during a call",
		"points enter either through models.NewPoint with models.NewTags or through the line-protocol parser with permuted tag order; tag keys start with distinct plain letters, so keys whose order differs between raw and escaped form are not exercised; unsorted models.Tags handed straight to NewPoint (a violated type invariant) are not an input",
		"TSDBStore, ShardWriter and HintedHandoff are recording doubles that always succeed; consistency level ALL so that every owner is written before the call returns",
	}
	r.Floor = 40

	nHist := r.Pick(800, 16000)
	if v := os.Getenv("C08_NHIST"); v != "" {
		fmt.Sscan(v, &nHist)
	}
	workers := runtime.NumCPU() / 2
	if workers > 8 {
		workers = 8
	}
	if workers < 2 {
		workers = 2
	}
	if r.ReplayCase() != "" {
		workers = 1
	}
	root := ev.TempDir("c08")
	defer os.RemoveAll(root)

	type job struct {
		id   string
		seed int64
		dir  int // >0: directed case number
	}
	jobs := make(chan job, 64)
	var wg sync.WaitGroup
	var startErr error
	var startMu sync.Mutex
	for w := 0; w < workers; w++ {
		wg.Add(1)
		go func(w int) {
			defer wg.Done()
			cl, err := startCluster(filepath.Join(root, fmt.Sprint(w)))
			if err != nil {
				startMu.Lock()
				startErr = err
				startMu.Unlock()
				for range jobs {
				}
				return
			}
			defer cl.close()
			n := 0
			for j := range jobs {
				n++
				db := fmt.Sprintf("db_%d_%d", w, n)
				if j.dir > 0 {
					runDirected(cl, db, j.id, j.dir)
				} else {
					runHistory(cl, db, j.id, j.seed)
				}
			}
		}(w)
	}
	for d := 1; d <= numDirected; d++ {
		id := "directed/" + directedName(d)
		if r.Skip(id) {
			continue
		}
		jobs <- job{id: id, dir: d}
	}
	rng := r.Rand("histories")
	for i := 0; i < nHist; i++ {
		caseID := fmt.Sprintf("hist/%d", i)
		seed := rng.Int63()
		if r.Skip(caseID) {
			continue
		}
		jobs <- job{id: caseID, seed: seed}
	}
	close(jobs)
	wg.Wait()
	os.RemoveAll(root)
	if startErr != nil {
		fmt.Fprintf(os.Stderr, "cannot start meta service: %v\n", startErr)
		fmt.Printf("BROKEN-CHECK C08: cannot start the meta service: %v\n", startErr)
		os.Exit(ev.ExitBroken)
	}
	r.Set("metadata_backend", "real single-node meta service + 2 meta.Clients per worker")
	r.Set("workers", workers)
	r.Finish()
}

// ------------------------------------------------------------------ history

type hist struct {
	caseID string
	seed   int64
	g      *rand.Rand
	cl     *cluster
	db     string

	D      time.Duration
	curSGD time.Duration
	sgds   []time.Duration // every shard duration this policy ever had
	repl   int
	nodes  int
	base   int64
	truncs []int64
	series []*seriesDef
	nextID int64
	ops    []string
	broken bool
}

func harnessFail(format string, a ...interface{}) {
	msg := fmt.Sprintf(format, a...)
	fmt.Fprintln(os.Stderr, "harness failure: "+msg)
	fmt.Printf("BROKEN-CHECK C08: %s\n", msg)
	os.Exit(ev.ExitBroken)
}

func (h *hist) op(format string, a ...interface{}) {
	h.ops = append(h.ops, fmt.Sprintf(format, a...))
}

func (h *hist) groups(who int) []meta.ShardGroupInfo {
	d := h.cl.c[who].Data()
	for i := range d.Databases {
		if d.Databases[i].Name != h.db {
			continue
		}
		for j := range d.Databases[i].RetentionPolicies {
			if d.Databases[i].RetentionPolicies[j].Name == rpName {
				return d.Databases[i].RetentionPolicies[j].ShardGroups
			}
		}
	}
	return nil
}

var (
	durations = []time.Duration{0, time.Hour, 24 * time.Hour, 30 * 24 * time.Hour}
	sgDurs    = []time.Duration{time.Hour, 24 * time.Hour, 7 * 24 * time.Hour}
)

func (h *hist) create() bool {
	if err := h.cl.ensureNodes(h.nodes); err != nil {
		harnessFail("ensureNodes(%d): %v", h.nodes, err)
	}
	d, rn := h.D, h.repl
	if _, err := h.cl.c[0].CreateDatabaseWithRetentionPolicy(h.db, &meta.RetentionPolicySpec{Name: rpName, Duration: &d, ReplicaN: &rn, ShardGroupDuration: h.curSGD}); err != nil {
		harnessFail("create database: %v", err)
	}
	h.op("data nodes=%d; CREATE DATABASE %s WITH DURATION %v REPLICATION %d SHARD DURATION %v NAME %s", h.nodes, h.db, h.D, h.repl, h.curSGD, rpName)
	return true
}

func (h *hist) drop() {
	if err := h.cl.c[0].DropDatabase(h.db); err != nil {
		harnessFail("drop database: %v", err)
	}
}

func runHistory(cl *cluster, db, caseID string, seed int64) {
	g := rand.New(rand.NewSource(seed))
	h := &hist{caseID: caseID, seed: seed, g: g, cl: cl, db: db}
	h.D = durations[g.Intn(len(durations))]
	for {
		h.curSGD = sgDurs[g.Intn(len(sgDurs))]
		if h.D == 0 || h.D >= h.curSGD {
			break
		}
	}
	h.sgds = []time.Duration{h.curSGD}
	h.nodes = 1 + g.Intn(4)
	h.repl = 1 + g.Intn(3)
	now := time.Now()
	h.base = now.UnixNano()
	baseKind := "now"
	if h.D == 0 {
		switch k := g.Intn(100); {
		case k < 30:
		case k < 60:
			h.base = time.Date(2000, 1, 1, 0, 0, 0, 0, time.UTC).UnixNano() + g.Int63n(40*365*24*int64(time.Hour))
			baseKind = "2000-2040"
		case k < 72:
			h.base = models.MaxNanoTime - g.Int63n(3*int64(h.curSGD))
			baseKind = "near-max"
		case k < 84:
			h.base = models.MinNanoTime + g.Int63n(3*int64(h.curSGD))
			baseKind = "near-min"
		case k < 92:
			h.base = g.Int63n(4*int64(h.curSGD)) - 2*int64(h.curSGD)
			baseKind = "around-epoch"
		default:
			h.base = -g.Int63n(200 * 365 * 24 * int64(time.Hour))
			baseKind = "pre-1970"
		}
	}
	ns := 3 + g.Intn(4)
	for i := 0; i < ns; i++ {
		h.series = append(h.series, genSeries(g))
	}
	steps := 5 + g.Intn(5)
	r.Begin(caseID, map[string]interface{}{"seed": seed, "duration": h.D.String(), "shard_duration": h.curSGD.String(), "replication": h.repl, "nodes": h.nodes, "base": baseKind, "steps": steps})
	r.Eval(1)
	h.create()
	defer h.drop()

	for s := 0; s < steps && !h.broken; s++ {
		h.metadataStep()
		nb := 1 + g.Intn(2)
		for b := 0; b < nb && !h.broken; b++ {
			who := 0
			if g.Intn(4) == 0 {
				who = 1
			}
			write := g.Intn(10) < 3
			if who == 1 && !h.cl.sync(0, 1) {
				r.Inconclusive(caseID + ": second client did not catch up with the metadata (watchdog)")
				h.broken = true
				break
			}
			gs := h.groups(who)
			pts := h.genBatch(gs)
			res := h.evalBatch(fmt.Sprintf("s%d.b%d", s, b), who, write, pts, true)
			if who == 1 && !h.cl.sync(1, 0) {
				r.Inconclusive(caseID + ": first client did not catch up with the metadata (watchdog)")
				h.broken = true
				break
			}
			if res != nil && who == 0 {
				h.independence(fmt.Sprintf("s%d.b%d", s, b), pts, res)
			}
		}
	}
	r.Count("histories_completed", 1)
}

// metadataStep applies one random metadata operation through client 1.
func (h *hist) metadataStep() {
	g := h.g
	c := h.cl.c[0]
	gs := h.groups(0)
	k := g.Intn(100)
	switch {
	case k < 22:
		h.op("(no metadata operation)")
	case k < 32:
		ts, _ := h.pickTS(gs, nil, false)
		if _, err := c.CreateShardGroup(h.db, rpName, time.Unix(0, ts)); err != nil {
			harnessFail("CreateShardGroup: %v", err)
		}
		h.op("CreateShardGroup(%s)", fmtT(time.Unix(0, ts)))
		r.Count("op_create_group", 1)
	case k < 45:
		var cands []time.Duration
		for _, d := range sgDurs {
			if d != h.curSGD && (h.D == 0 || h.D >= d) {
				cands = append(cands, d)
			}
		}
		if len(cands) == 0 {
			h.op("(no other shard duration is compatible with the policy duration)")
			return
		}
		nd := cands[g.Intn(len(cands))]
		rpu := &meta.RetentionPolicyUpdate{}
		rpu.SetShardGroupDuration(nd)
		if err := c.UpdateRetentionPolicy(h.db, rpName, rpu, true); err != nil {
			harnessFail("UpdateRetentionPolicy(shard duration): %v", err)
		}
		h.curSGD = nd
		h.sgds = append(h.sgds, nd)
		h.op("ALTER RETENTION POLICY SHARD DURATION %v (groups existing: %d)", nd, len(gs))
		if len(gs) > 0 {
			r.Count("op_alter_shard_duration_after_groups_exist", 1)
		}
	case k < 65:
		// truncation time: inside a live group, at its edges, or free
		var t int64
		live := liveGroups(gs)
		switch kk := g.Intn(10); {
		case kk < 5 && len(live) > 0:
			gr := live[g.Intn(len(live))]
			span := gr.EndTime.Sub(gr.StartTime)
			if span <= 0 {
				span = time.Hour
			}
			t = clampTS(addSat(unixSat(gr.StartTime), g.Int63n(int64(span))))
		case kk < 7 && len(live) > 0:
			gr := live[g.Intn(len(live))]
			e := []time.Time{gr.StartTime, gr.EndTime}[g.Intn(2)]
			t = clampTS(addSat(unixSat(e), int64(g.Intn(3)-1)))
		default:
			t, _ = h.pickTS(gs, nil, false)
		}
		if t == 0 {
			t = 1 // a truncation time of exactly the epoch is not representable in the metadata encoding; out of scope here
		}
		if err := c.TruncateShardGroups(time.Unix(0, t)); err != nil {
			harnessFail("TruncateShardGroups: %v", err)
		}
		h.truncs = append(h.truncs, t)
		h.op("TruncateShardGroups(%s)", fmtT(time.Unix(0, t)))
		r.Count("op_truncate", 1)
	case k < 77:
		live := liveGroups(gs)
		if len(live) == 0 {
			h.op("(no live group to delete)")
			return
		}
		gr := live[g.Intn(len(live))]
		if err := c.DeleteShardGroup(h.db, rpName, gr.ID); err != nil {
			harnessFail("DeleteShardGroup: %v", err)
		}
		h.op("DeleteShardGroup(%d [%s,%s))", gr.ID, fmtT(gr.StartTime), fmtT(gr.EndTime))
		r.Count("op_delete_group", 1)
	case k < 87:
		if len(gs) == 0 {
			h.op("(nothing to precreate from)")
			return
		}
		last := gs[len(gs)-1]
		from, to := last.EndTime.Add(-time.Second), last.EndTime.Add(time.Second)
		before := len(gs)
		if err := c.PrecreateShardGroups(from, to); err != nil {
			harnessFail("PrecreateShardGroups: %v", err)
		}
		after := len(h.groups(0))
		h.op("PrecreateShardGroups(%s, %s): groups %d -> %d", fmtT(from), fmtT(to), before, after)
		if after > before {
			r.Count("op_precreate_created_group", 1)
		}
	case k < 92:
		nr := 1 + g.Intn(3)
		rpu := &meta.RetentionPolicyUpdate{}
		rpu.SetReplicaN(nr)
		if err := c.UpdateRetentionPolicy(h.db, rpName, rpu, true); err != nil {
			harnessFail("UpdateRetentionPolicy(replication): %v", err)
		}
		h.repl = nr
		h.op("ALTER RETENTION POLICY REPLICATION %d", nr)
	case k < 96:
		if len(c.DataNodes()) >= 4 {
			h.op("(already 4 data nodes)")
			return
		}
		if err := h.cl.addNode(); err != nil {
			harnessFail("add data node: %v", err)
		}
		h.op("add data node -> %d nodes", len(c.DataNodes()))
		r.Count("op_add_node", 1)
	default:
		nodes := c.DataNodes()
		if len(nodes) <= 1 {
			h.op("(single data node, none removed)")
			return
		}
		victim := nodes[1+g.Intn(len(nodes)-1)]
		if victim.TCPAddr == node1TCP {
			victim = nodes[len(nodes)-1]
		}
		if victim.TCPAddr == node1TCP {
			return
		}
		if err := c.DeleteDataNode(victim.ID); err != nil {
			harnessFail("delete data node: %v", err)
		}
		h.op("remove data node %d -> %d nodes", victim.ID, len(c.DataNodes()))
		r.Count("op_remove_node", 1)
	}
}

func liveGroups(gs []meta.ShardGroupInfo) []*meta.ShardGroupInfo {
	var out []*meta.ShardGroupInfo
	for i := range gs {
		if !isDeleted(&gs[i]) {
			out = append(out, &gs[i])
		}
	}
	return out
}

// ------------------------------------------------------------------ judging

type outcome struct {
	kept  bool
	shard uint64
	ok    bool // judged and found in the designated shard (or legitimately dropped)
}

type batchWitness struct {
	Case     string             `json:"case"`
	Seed     int64              `json:"history_seed"`
	Ops      []string           `json:"metadata_history"`
	Batch    string             `json:"batch"`
	Client   int                `json:"client"`
	Path     string             `json:"path"`
	Duration string             `json:"policy_duration"`
	T0       string             `json:"clock_before_call"`
	T1       string             `json:"clock_after_call"`
	Series   []*seriesDef       `json:"series"`
	Points   []*genPoint        `json:"points"`
	Trimmed  int                `json:"points_not_shown,omitempty"`
	Mapping  map[string][]int64 `json:"observed_shard_to_point_ids"`
	Dropped  []int64            `json:"observed_dropped_ids"`
	Groups   []groupView        `json:"groups_after_call"`
	Findings []finding          `json:"findings"`
}

func isMinTimeOverflow(ts int64, sgds []time.Duration) bool {
	lim := time.Unix(0, math.MinInt64)
	for _, d := range sgds {
		if time.Unix(0, ts).Truncate(d).Before(lim) {
			return true
		}
	}
	return false
}

// evalBatch routes one batch through the real coordinator and judges it.
// It returns the per-point outcomes (nil when nothing could be judged).
func (h *hist) evalBatch(tag string, who int, write bool, pts []*genPoint, countNontrivial bool) map[int64]*outcome {
	cl := h.cl
	mps := make([]models.Point, len(pts))
	keys := make([]string, len(pts))
	byID := make(map[int64]*genPoint, len(pts))
	for i, p := range pts {
		mp, err := h.build(p)
		if err != nil {
			harnessFail("cannot build point: %v", err)
		}
		mps[i] = mp
		keys[i] = string(mp.Key())
		byID[p.ID] = p
	}
	path := "MapShards"
	if write {
		path = "WritePointsPrivileged"
	}
	var (
		mapping  = map[uint64][]int64{} // shard -> ids (one entry per routed copy)
		dropped  []int64
		foreign  int
		mutated  []int64
		dels     []delivery
		findings []finding
		seenSig  = map[string]bool{}
		callErr  error
		reported = -1
	)
	add := func(sig, what string, p *genPoint) {
		if seenSig[sig] {
			return
		}
		seenSig[sig] = true
		findings = append(findings, finding{sig, what, p})
	}
	checkPoint := func(mp models.Point, onID func(id int64)) {
		id, ok := pointID(mp)
		gp := byID[id]
		if !ok || gp == nil {
			foreign++
			return
		}
		if string(mp.Key()) != keys[indexOf(pts, id)] || mp.UnixNano() != gp.TS {
			mutated = append(mutated, id)
		}
		onID(id)
	}

	if len(pts) <= 4 {
		var tss []string
		for _, p := range pts {
			tss = append(tss, fmt.Sprintf("%s@%s", h.series[p.Series].Canon, fmtT(p.t)))
		}
		h.op("batch %s: %s by client %d: %s", tag, path, who+1, strings.Join(tss, ", "))
	} else {
		h.op("batch %s: %s by client %d: %d points", tag, path, who+1, len(pts))
	}
	input := append([]models.Point(nil), mps...)
	t0 := time.Now()
	if write {
		cl.rec[who].take()
		rp := rpName
		if pts[0].ID%2 == 0 {
			rp = "" // the policy is the database's default: exercise the default-policy lookup too
		}
		callErr = cl.pw[who].WritePointsPrivileged(h.db, rp, models.ConsistencyLevelAll, input)
	} else {
		var m *coordinator.ShardMapping
		m, callErr = cl.pw[who].MapShards(&coordinator.WritePointsRequest{Database: h.db, RetentionPolicy: rpName, Points: input})
		if callErr == nil {
			for sh, ps := range m.Points {
				sh := sh
				for _, mp := range ps {
					checkPoint(mp, func(id int64) { mapping[sh] = append(mapping[sh], id) })
				}
				if si := m.Shards[sh]; si == nil || si.ID != sh {
					add(sigUnknownShard, fmt.Sprintf("ShardMapping.Shards has no matching entry for shard %d that holds points", sh), nil)
				}
			}
			for _, mp := range m.Dropped {
				checkPoint(mp, func(id int64) { dropped = append(dropped, id) })
			}
		}
	}
	t1 := time.Now()
	r.Count("batches_routed", 1)

	if write {
		dels = cl.rec[who].take()
		if pe, ok := callErr.(tsdb.PartialWriteError); ok {
			reported = pe.Dropped
			callErr = nil
		} else if callErr == nil {
			reported = 0
		}
	}

	if callErr != nil {
		// The whole batch was refused. Find the points that cannot be routed
		// on their own, report, and judge the rest of the batch without them.
		return h.refused(tag, who, write, pts, callErr, countNontrivial)
	}

	gs := h.groups(who)
	nodeID := cl.c[who].NodeID()

	if write {
		// deliveries -> mapping; a point counts once per shard it reached
		perID := map[int64]map[uint64][]delivery{}
		for _, d := range dels {
			d := d
			for _, mp := range d.pts {
				checkPoint(mp, func(id int64) {
					if perID[id] == nil {
						perID[id] = map[uint64][]delivery{}
					}
					perID[id][d.Shard] = append(perID[id][d.Shard], d)
				})
			}
		}
		for _, p := range pts {
			m := perID[p.ID]
			if len(m) == 0 {
				dropped = append(dropped, p.ID)
				continue
			}
			for sh, ds := range m {
				mapping[sh] = append(mapping[sh], p.ID)
				// owners that must have received it exactly once
				g, idx := groupOfShard(gs, sh)
				if g == nil {
					continue
				}
				want := map[uint64]int{}
				for _, o := range g.Shards[idx].Owners {
					want[o.NodeID]++
				}
				for _, d := range ds {
					want[d.Owner]--
					if (d.Via == "local") != (d.Owner == nodeID) || d.Via == "hh" {
						add(sigE2E, fmt.Sprintf("point %d reached shard %d owner %d via %s (writing node is %d)", p.ID, sh, d.Owner, d.Via, nodeID), p)
					}
				}
				for o, n := range want {
					if n != 0 {
						add(sigE2E, fmt.Sprintf("point %d, shard %d: owner %d received it %+d time(s) relative to the shard's owner list %v", p.ID, sh, o, -n, g.Shards[idx].Owners), p)
					}
				}
				r.Count("e2e_deliveries_checked", int64(len(ds)))
			}
		}
		if reported != len(dropped) {
			add("C08/dropped-points-not-reported", fmt.Sprintf("WritePointsPrivileged reported %d dropped points, %d points of the batch reached no shard", reported, len(dropped)), nil)
		}
	}

	// ---- conservation: multiset(batch) = U Points[*] + Dropped
	count := map[int64]int{}
	where := map[int64]uint64{}
	for sh, ids := range mapping {
		for _, id := range ids {
			count[id]++
			where[id] = sh
		}
	}
	for _, id := range dropped {
		count[id]++
	}
	if foreign > 0 {
		add(sigForeign, fmt.Sprintf("%d routed points are not points of the batch", foreign), nil)
	}
	if len(mutated) > 0 {
		add(sigMutated, fmt.Sprintf("point %d came out of routing with a different key or timestamp", mutated[0]), byID[mutated[0]])
	}
	res := make(map[int64]*outcome, len(pts))
	for _, p := range pts {
		switch n := count[p.ID]; {
		case n == 0:
			add(sigLost, fmt.Sprintf("point %d (ts=%s) of a batch of %d is neither in a shard nor in Dropped", p.ID, fmtT(p.t), len(pts)), p)
		case n > 1:
			add(sigDup, fmt.Sprintf("point %d (ts=%s) appears %d times across shards and Dropped", p.ID, fmtT(p.t), n), p)
		}
	}

	// ---- designation, shard-by-hash, retention
	droppedSet := map[int64]bool{}
	for _, id := range dropped {
		droppedSet[id] = true
	}
	spanned := map[uint64]bool{}
	touchTrunc, touchClip, touchDel := false, false, false
	lo0, lo1 := t0.Add(-h.D), t1.Add(-h.D)
	// groups that received a kept point which was not expired for at least
	// one instant of the call (used to classify expired points that were kept)
	freshGroups := map[uint64]bool{}
	if h.D > 0 {
		for _, p := range pts {
			if count[p.ID] == 1 && !droppedSet[p.ID] && !p.t.Before(lo0) {
				if g, _ := groupOfShard(gs, where[p.ID]); g != nil {
					freshGroups[g.ID] = true
				}
			}
		}
	}
	judge := func(p *genPoint, shard uint64) (string, string) {
		sig, what := judgeKept(gs, p, shard)
		if sig == sigTruncGroup {
			// Known mechanism: the truncated group entered the per-request
			// group list because another point of the batch legitimately
			// belongs to it (ts < TruncatedAt), and this point followed it.
			g, _ := groupOfShard(gs, shard)
			for _, q := range pts {
				if q.ID == p.ID || count[q.ID] != 1 || droppedSet[q.ID] || !q.t.Before(g.TruncatedAt) {
					continue
				}
				if qg, _ := groupOfShard(gs, where[q.ID]); qg != nil && qg.ID == g.ID {
					sig = sigTruncFollow
					what += fmt.Sprintf("; point %d of the same batch (ts=%s, before the truncation time) belongs to that group", q.ID, fmtT(q.t))
					break
				}
			}
		}
		return sig, what
	}
	for _, p := range pts {
		if count[p.ID] != 1 {
			continue
		}
		o := &outcome{}
		res[p.ID] = o
		if droppedSet[p.ID] {
			r.Count("points_dropped", 1)
			if h.D == 0 || !p.t.Before(lo1) {
				add(sigDroppedLive, fmt.Sprintf("point ts=%s dropped although the policy duration is %v and the clock after the call read %s (cut-off no later than %s)", fmtT(p.t), h.D, fmtT(t1), fmtT(lo1)), p)
			} else {
				o.ok = true
				if !p.t.Before(lo0) {
					r.Count("retention_verdicts_inside_clock_bracket", 1)
				}
			}
			continue
		}
		o.kept, o.shard = true, where[p.ID]
		r.Count("points_kept", 1)
		if h.D > 0 && p.t.Before(lo0) {
			sig, how := sigKeptExpired, "no in-retention point of the batch shares its group"
			if g, _ := groupOfShard(gs, o.shard); g != nil && freshGroups[g.ID] {
				sig, how = sigKeptExpiredCompanion, fmt.Sprintf("an in-retention point of the same batch opened group %d for it; routed alone it is dropped", g.ID)
			}
			add(sig, fmt.Sprintf("point ts=%s kept, not reported as dropped, although the policy duration is %v and the clock before the call read %s (cut-off no earlier than %s); %s", fmtT(p.t), h.D, fmtT(t0), fmtT(lo0), how), p)
			r.Count("expired_points_kept", 1)
			// it was written somewhere: still judge where
			if sig, what := judge(p, o.shard); sig != "" {
				add(sig, what, p)
			}
			continue
		}
		if h.D > 0 && p.t.Before(lo1) {
			r.Count("retention_verdicts_inside_clock_bracket", 1)
		}
		sig, what := judge(p, o.shard)
		if sig != "" {
			add(sig, what, p)
			continue
		}
		o.ok = true
		g, _ := groupOfShard(gs, o.shard)
		spanned[g.ID] = true
		if isClipped(g) {
			touchClip = true
		}
		if len(g.Shards) > 1 {
			r.Count("points_hashed_over_multi_shard_group", 1)
		}
		tsn := p.TS
		if tsn == unixSat(g.StartTime) || tsn == unixSat(g.EndTime)-1 {
			r.Count("points_exactly_at_group_first_or_last_ns", 1)
		}
		for i := range gs {
			og := &gs[i]
			if !inRange(og, p.t) {
				continue
			}
			if isDeleted(og) {
				touchDel = true
			}
			if isTruncated(og) {
				touchTrunc = true
				if !p.t.Before(og.TruncatedAt) && og.ID != g.ID {
					r.Count("points_routed_to_successor_of_truncated_group", 1)
				}
				if d := tsn - unixSat(og.TruncatedAt); d >= -1 && d <= 1 {
					r.Count("points_within_1ns_of_truncation_time", 1)
				}
			}
		}
		switch {
		case strings.HasPrefix(p.Why, "extreme"):
			r.Count("points_at_extreme_timestamps_routed", 1)
		case p.Why == "retention-boundary":
			r.Count("points_at_retention_boundary_kept", 1)
		}
		if p.Form == "line" {
			r.Count("points_with_permuted_tag_order_routed", 1)
		}
	}
	r.Count("points_judged", int64(len(pts)))
	if who == 1 {
		r.Count("batches_routed_by_second_client", 1)
	}
	if write {
		r.Count("batches_through_WritePointsPrivileged", 1)
	}

	if len(findings) > 0 {
		w := h.witness(tag, who, path, t0, t1, pts, mapping, dropped, gs, findings)
		for _, f := range findings {
			r.Violation(f.Sig, h.caseID, fmt.Sprintf("%s %s (%s, client %d): %s", h.caseID, tag, path, who+1, f.What), w)
		}
	}
	if countNontrivial && (len(spanned) >= 2 || touchTrunc || touchClip) {
		sp := len(spanned)
		if sp > 4 {
			sp = 4
		}
		r.Nontrivial(fmt.Sprintf("D=%v|sgds=%v|R=%d|N=%d|span=%d|trunc=%v|clip=%v|del=%v|%s|c%d", h.D, h.sgds, h.repl, len(cl.c[0].DataNodes()), sp, touchTrunc, touchClip, touchDel, path, who))
		if len(spanned) >= 2 {
			r.Count("batches_spanning_2plus_groups", 1)
		}
		if touchTrunc {
			r.Count("batches_touching_truncated_group", 1)
		}
		if touchClip {
			r.Count("batches_touching_clipped_group", 1)
		}
		if touchDel {
			r.Count("batches_touching_deleted_group_range", 1)
		}
		if r.WantSample() && len(pts) <= 6 && len(h.ops) <= 16 && touchTrunc {
			r.Sample(h.witness(tag, who, path, t0, t1, pts, mapping, dropped, gs, nil))
		}
	}
	return res
}

func indexOf(pts []*genPoint, id int64) int {
	// ids inside a batch are consecutive
	i := int(id - pts[0].ID)
	if i >= 0 && i < len(pts) && pts[i].ID == id {
		return i
	}
	for i, p := range pts {
		if p.ID == id {
			return i
		}
	}
	return 0
}

func (h *hist) witness(tag string, who int, path string, t0, t1 time.Time, pts []*genPoint, mapping map[uint64][]int64, dropped []int64, gs []meta.ShardGroupInfo, findings []finding) *batchWitness {
	w := &batchWitness{Case: h.caseID, Seed: h.seed, Ops: append([]string(nil), h.ops...), Batch: tag, Client: who + 1, Path: path,
		Duration: h.D.String(), T0: fmtT(t0), T1: fmtT(t1), Series: h.series, Groups: viewGroups(gs), Findings: findings,
		Mapping: map[string][]int64{}, Dropped: dropped}
	for sh, ids := range mapping {
		w.Mapping[fmt.Sprint(sh)] = ids
	}
	w.Points = pts
	if len(pts) > 60 {
		w.Points = append([]*genPoint(nil), pts[:60]...)
		w.Trimmed = len(pts) - 60
		for _, f := range findings {
			if gp, ok := f.Point.(*genPoint); ok && gp != nil {
				w.Points = append(w.Points, gp)
			}
		}
	}
	return w
}

// refused handles a batch the coordinator refused as a whole.
func (h *hist) refused(tag string, who int, write bool, pts []*genPoint, callErr error, countNontrivial bool) map[int64]*outcome {
	cl := h.cl
	r.Count("batches_refused_with_error", 1)
	var bad, rest []*genPoint
	badTS := map[int64]error{}
	okTS := map[int64]bool{}
	for _, p := range pts {
		if _, ok := badTS[p.TS]; ok {
			bad = append(bad, p)
			continue
		}
		if okTS[p.TS] {
			rest = append(rest, p)
			continue
		}
		mp, err := h.build(p)
		if err != nil {
			harnessFail("cannot build point: %v", err)
		}
		_, err = cl.pw[who].MapShards(&coordinator.WritePointsRequest{Database: h.db, RetentionPolicy: rpName, Points: []models.Point{mp}})
		if err != nil {
			badTS[p.TS] = err
			bad = append(bad, p)
		} else {
			okTS[p.TS] = true
			rest = append(rest, p)
		}
	}
	gs := h.groups(who)
	path := "MapShards"
	if write {
		path = "WritePointsPrivileged"
	}
	now := time.Now()
	if len(bad) == 0 {
		w := h.witness(tag, who, path, now, now, pts, nil, nil, gs, nil)
		r.Violation(sigMapErr, h.caseID, fmt.Sprintf("%s %s (%s, client %d): batch of %d points refused with %q although every point routes on its own", h.caseID, tag, path, who+1, len(pts), callErr), w)
		return nil
	}
	var minTime, other []*genPoint
	for _, p := range bad {
		if h.D > 0 && p.t.Before(now.Add(-h.D)) {
			continue // expired anyway: nothing is lost for this point
		}
		if isMinTimeOverflow(p.TS, h.sgds) {
			minTime = append(minTime, p)
		} else {
			other = append(other, p)
		}
	}
	if len(minTime) > 0 {
		p := minTime[0]
		w := h.witness(tag, who, path, now, now, pts, nil, nil, gs, []finding{{sigMinTime, callErr.Error(), p}})
		r.Violation(sigMinTime, h.caseID, fmt.Sprintf("%s %s (%s, client %d): in-retention point ts=%s cannot be routed (%q) and takes its whole batch of %d points with it: the aligned start of its shard group lies before the minimum int64 nanosecond, overflows in the metadata encoding, and no client ever sees a group containing the timestamp",
			h.caseID, tag, path, who+1, fmtT(p.t), badTS[p.TS], len(pts)), w)
	}
	if len(other) > 0 {
		p := other[0]
		w := h.witness(tag, who, path, now, now, pts, nil, nil, gs, []finding{{sigMapErr, callErr.Error(), p}})
		r.Violation(sigMapErr, h.caseID, fmt.Sprintf("%s %s (%s, client %d): in-retention point ts=%s cannot be routed: %q", h.caseID, tag, path, who+1, fmtT(p.t), badTS[p.TS]), w)
	}
	if len(rest) == 0 {
		return nil
	}
	return h.evalBatch(tag+".rest", who, write, rest, countNontrivial)
}

// independence re-routes a few points of a judged batch alone, inside a fresh
// random batch with a permuted tag order, and through the second client, and
// compares the shard ids.
func (h *hist) independence(tag string, pts []*genPoint, res map[int64]*outcome) {
	g := h.g
	var cands []*genPoint
	for _, p := range pts {
		if o := res[p.ID]; o != nil && o.kept && o.ok {
			cands = append(cands, p)
		}
	}
	if len(cands) == 0 {
		return
	}
	g.Shuffle(len(cands), func(i, j int) { cands[i], cands[j] = cands[j], cands[i] })
	if len(cands) > 3 {
		cands = cands[:3]
	}
	synced := false
	for _, p := range cands {
		ref := res[p.ID].shard
		type probe struct {
			name  string
			shard uint64
			ok    bool
		}
		var probes []probe
		clone := func() *genPoint {
			q := h.newPoint(p.Series, p.TS, "independence:"+p.Why)
			if n := len(h.series[p.Series].Tags); n > 0 {
				q.Form, q.Perm = "line", g.Perm(n)
			}
			return q
		}
		run := func(name string, who int, batch []*genPoint, q *genPoint) {
			rs := h.evalBatch(tag+"."+name, who, false, batch, false)
			if o := rs[q.ID]; o != nil && o.kept && o.ok {
				probes = append(probes, probe{name, o.shard, true})
			}
		}
		// alone
		q := clone()
		run("alone", 0, []*genPoint{q}, q)
		// inside a fresh random batch
		q = clone()
		other := h.genBatch(h.groups(0))
		if len(other) > 40 {
			other = other[:40]
		}
		// ids must stay consecutive inside one batch: re-issue them
		batch := make([]*genPoint, 0, len(other)+1)
		at := g.Intn(len(other) + 1)
		for i, o := range other {
			if i == at {
				batch = append(batch, nil)
			}
			batch = append(batch, o)
		}
		if at == len(other) {
			batch = append(batch, nil)
		}
		for i := range batch {
			h.nextID++
			if batch[i] == nil {
				batch[i] = q
			}
			batch[i].ID = h.nextID
		}
		run("in-batch", 0, batch, q)
		// second client
		if !synced {
			if !h.cl.sync(0, 1) {
				r.Inconclusive(h.caseID + ": second client did not catch up with the metadata (watchdog)")
				return
			}
			synced = true
		}
		q = clone()
		run("second-client", 1, []*genPoint{q}, q)
		for _, pr := range probes {
			r.Count("independence_comparisons", 1)
			if pr.shard != ref {
				w := map[string]interface{}{"case": h.caseID, "history_seed": h.seed, "metadata_history": h.ops, "point": p, "series": h.series[p.Series],
					"shard_in_original_batch": ref, "context": pr.name, "shard_in_context": pr.shard, "groups": viewGroups(h.groups(0))}
				r.Violation(sigContext, h.caseID, fmt.Sprintf("%s %s: series %q ts=%s went to shard %d in its batch and to shard %d when routed %s", h.caseID, tag, p.canon, fmtT(p.t), ref, pr.shard, pr.name), w)
			}
		}
	}
	if synced && !h.cl.sync(1, 0) {
		r.Inconclusive(h.caseID + ": first client did not catch up with the metadata (watchdog)")
		h.broken = true
	}
}

// ------------------------------------------------------------ directed cases

const numDirected = 7

func directedName(d int) string {
	return []string{"", "truncation-straddle", "truncation-then-shorter-shard-duration", "min-time", "boundaries", "truncation-at-epoch", "expired-point-with-companion", "deleted-short-group-inside-a-longer-group"}[d]
}

// runDirected runs small hand-built histories: the minimal reproductions of
// the suspects plus a boundary sanity history. They go through the same
// evalBatch oracle as the generated histories.
func runDirected(cl *cluster, db, caseID string, d int) {
	h := &hist{caseID: caseID, seed: int64(d), g: rand.New(rand.NewSource(int64(d))), cl: cl, db: db}
	h.D, h.curSGD, h.repl, h.nodes = 0, time.Hour, 1, 1
	if d == 6 {
		h.D, h.curSGD = 24*time.Hour, 24*time.Hour
	}
	if d == 2 {
		h.curSGD = 7 * 24 * time.Hour
	}
	if d == 4 {
		h.nodes, h.repl = 3, 1
	}
	h.sgds = []time.Duration{h.curSGD}
	h.series = []*seriesDef{{Meas: "cpu", Tags: [][2]string{{"host", "a"}}}, {Meas: "cpu", Tags: [][2]string{{"host", "b"}, {"region", "us west"}}}, {Meas: "mem"}}
	for _, s := range h.series {
		s.Canon = canonicalKey(s.Meas, s.Tags)
		s.Hash = fnv64a(s.Canon)
	}
	r.Begin(caseID, map[string]interface{}{"directed": directedName(d)})
	r.Eval(1)
	h.create()
	defer h.drop()
	c := cl.c[0]
	hour := int64(time.Hour)
	base := time.Date(2030, 1, 7, 0, 0, 0, 0, time.UTC).UnixNano() // a Monday: aligned for 1h, 1d and 7d
	h.base = base
	mk := func(ser int, ts int64) *genPoint {
		p := h.newPoint(ser, ts, "directed")
		p.Form, p.Perm = "NewPoint", nil
		return p
	}
	switch d {
	case 1:
		h.evalBatch("b0", 0, false, []*genPoint{mk(0, base+10)}, true)
		t := base + hour/2
		if err := c.TruncateShardGroups(time.Unix(0, t)); err != nil {
			harnessFail("TruncateShardGroups: %v", err)
		}
		h.truncs = append(h.truncs, t)
		h.op("TruncateShardGroups(%s)", fmtT(time.Unix(0, t)))
		h.evalBatch("after-truncation-alone", 0, false, []*genPoint{mk(0, t+5)}, true)
		h.evalBatch("straddle", 0, false, []*genPoint{mk(0, base+10), mk(0, t+5)}, true)
		h.evalBatch("straddle-reversed", 0, false, []*genPoint{mk(0, t+5), mk(0, base+10)}, true)
		h.evalBatch("straddle-write", 0, true, []*genPoint{mk(0, t-1), mk(0, t)}, true)
	case 2:
		// a 7d group truncated after one day, then 1d groups follow it
		day := 24 * hour
		h.evalBatch("b0", 0, false, []*genPoint{mk(0, base+10)}, true)
		t := base + day
		if err := c.TruncateShardGroups(time.Unix(0, t)); err != nil {
			harnessFail("TruncateShardGroups: %v", err)
		}
		h.truncs = append(h.truncs, t)
		h.op("TruncateShardGroups(%s)", fmtT(time.Unix(0, t)))
		rpu := &meta.RetentionPolicyUpdate{}
		rpu.SetShardGroupDuration(24 * time.Hour)
		if err := c.UpdateRetentionPolicy(h.db, rpName, rpu, true); err != nil {
			harnessFail("UpdateRetentionPolicy: %v", err)
		}
		h.curSGD = 24 * time.Hour
		h.sgds = append(h.sgds, h.curSGD)
		h.op("ALTER RETENTION POLICY SHARD DURATION 24h")
		h.evalBatch("successors", 0, false, []*genPoint{mk(0, base+day+1), mk(0, base+2*day+1), mk(0, base+3*day)}, true)
		h.evalBatch("with-truncated-group", 0, false, []*genPoint{mk(0, base+1), mk(0, base+day+1), mk(0, base+2*day+1)}, true)
	case 3:
		h.evalBatch("min", 0, false, []*genPoint{mk(0, models.MinNanoTime)}, true)
		h.evalBatch("max", 0, false, []*genPoint{mk(0, models.MaxNanoTime)}, true)
		h.evalBatch("min-and-others", 0, false, []*genPoint{mk(0, base), mk(0, models.MinNanoTime+1), mk(1, models.MaxNanoTime-1)}, true)
	case 5:
		// A group that starts at the Unix epoch, truncated "as a future group"
		// (TruncatedAt = StartTime = epoch). The encoding of the metadata
		// cannot express that truncation time.
		h.base = 0
		h.evalBatch("b0", 0, false, []*genPoint{mk(0, 10)}, true)
		t := int64(-5)
		if err := c.TruncateShardGroups(time.Unix(0, t)); err != nil {
			harnessFail("TruncateShardGroups: %v", err)
		}
		h.truncs = append(h.truncs, t)
		h.op("TruncateShardGroups(%s)", fmtT(time.Unix(0, t)))
		h.evalBatch("after-truncation", 0, false, []*genPoint{mk(0, 20)}, true)
		rpu := &meta.RetentionPolicyUpdate{}
		rpu.SetShardGroupDuration(24 * time.Hour)
		if err := c.UpdateRetentionPolicy(h.db, rpName, rpu, true); err != nil {
			harnessFail("UpdateRetentionPolicy: %v", err)
		}
		h.curSGD = 24 * time.Hour
		h.sgds = append(h.sgds, h.curSGD)
		h.op("ALTER RETENTION POLICY SHARD DURATION 24h")
		h.evalBatch("next-period", 0, false, []*genPoint{mk(0, 2*hour)}, true)
		h.evalBatch("first-hour-again", 0, false, []*genPoint{mk(0, 30)}, true)
	case 6:
		// Policy duration 24h, shard duration 24h: the cut-off now-24h lies
		// inside a day group. Q (1s inside retention) and P (1s expired) fall
		// into the same group unless the cut-off is within a second of midnight.
		cut := time.Now().Add(-h.D)
		q, p := cut.Add(time.Second), cut.Add(-time.Second)
		if !q.Truncate(h.curSGD).Equal(p.Truncate(h.curSGD)) {
			r.Count("directed_expired_companion_skipped_at_midnight", 1)
			break
		}
		h.base = time.Now().UnixNano()
		h.evalBatch("expired-alone", 0, false, []*genPoint{mk(0, p.UnixNano())}, true)
		h.evalBatch("expired-with-companion", 0, false, []*genPoint{mk(0, q.Add(time.Minute).UnixNano()), mk(0, p.UnixNano())}, true)
		h.evalBatch("expired-with-companion-write", 0, true, []*genPoint{mk(1, p.UnixNano()), mk(0, q.Add(time.Minute).UnixNano())}, true)
	case 7:
		// 1h groups, the one at +3h is deleted and stays in the metadata; the
		// shard duration becomes 24h and a day-long group is created around the
		// deleted one. Groups are sorted by end time, so the deleted short
		// group now sorts in front of the live long group that starts earlier.
		h.evalBatch("b0", 0, false, []*genPoint{mk(0, base+3*hour+10)}, true)
		for _, gr := range h.groups(0) {
			if !isDeleted(&gr) {
				if err := c.DeleteShardGroup(h.db, rpName, gr.ID); err != nil {
					harnessFail("DeleteShardGroup: %v", err)
				}
				h.op("DeleteShardGroup(%d [%s,%s))", gr.ID, fmtT(gr.StartTime), fmtT(gr.EndTime))
			}
		}
		rpu := &meta.RetentionPolicyUpdate{}
		rpu.SetShardGroupDuration(24 * time.Hour)
		if err := c.UpdateRetentionPolicy(h.db, rpName, rpu, true); err != nil {
			harnessFail("UpdateRetentionPolicy: %v", err)
		}
		h.curSGD = 24 * time.Hour
		h.sgds = append(h.sgds, h.curSGD)
		h.op("ALTER RETENTION POLICY SHARD DURATION 24h")
		h.evalBatch("after-the-deleted-group", 0, false, []*genPoint{mk(0, base+5*hour)}, true)
		h.evalBatch("before-the-deleted-group-alone", 0, false, []*genPoint{mk(0, base+hour)}, true)
		h.evalBatch("before-the-deleted-group-alone-write", 0, true, []*genPoint{mk(1, base+2*hour)}, true)
		h.evalBatch("inside-the-deleted-group", 0, false, []*genPoint{mk(0, base+3*hour+20)}, true)
		h.evalBatch("both-sides", 0, false, []*genPoint{mk(0, base+hour+1), mk(0, base+6*hour), mk(2, base+3*hour+30)}, true)
	case 4:
		var pts []*genPoint
		for k := int64(0); k < 3; k++ {
			for s := 0; s < 3; s++ {
				pts = append(pts, mk(s, base+k*hour), mk(s, base+k*hour+1), mk(s, base+(k+1)*hour-1))
			}
		}
		res := h.evalBatch("edges", 0, false, pts, true)
		h.independence("edges", pts, res)
		h.evalBatch("edges-write", 0, true, pts[:9], true)
	}
	r.Count("directed_histories_completed", 1)
}
