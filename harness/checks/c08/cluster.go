package main

import (
	"fmt"
	"io"
	"log"
	"net"
	"os"
	"path/filepath"
	"sync"
	"time"

	"github.com/influxdata/influxdb/coordinator"
	"github.com/influxdata/influxdb/models"
	"github.com/influxdata/influxdb/services/meta"
	"github.com/influxdata/influxdb/tcp"
)

// cluster is the metadata backend of one worker: a REAL single-node meta
// service (raft + HTTP on loopback) and two real meta.Clients. Each client is
// the MetaClient of its own coordinator.PointsWriter, i.e. the two clients
// play two data nodes that route writes from their own cached copy of the
// metadata. TSDBStore / ShardWriter / HintedHandoff are recording doubles.
type cluster struct {
	dir string
	svc *meta.Service
	ln  net.Listener
	c   [2]*meta.Client
	pw  [2]*coordinator.PointsWriter
	rec [2]*recorder
	seq int
}

const (
	node1TCP = "n1:8088"
	node2TCP = "n2:8088"
)

func startCluster(dir string) (*cluster, error) {
	cl := &cluster{dir: dir}
	cfg := meta.NewConfig()
	cfg.BindAddress = "127.0.0.1:0"
	cfg.HTTPBindAddress = "127.0.0.1:0"
	cfg.Dir = filepath.Join(dir, "meta")
	cfg.SingleServer = true
	cfg.LoggingEnabled = false
	cfg.RetentionAutoCreate = false
	if err := os.MkdirAll(cfg.Dir, 0o755); err != nil {
		return nil, err
	}
	ln, err := net.Listen("tcp", cfg.BindAddress)
	if err != nil {
		return nil, err
	}
	cl.ln = ln
	mux := tcp.NewMux()
	mux.Logger = log.New(io.Discard, "", 0)
	s := meta.NewService(cfg)
	s.RaftListener = mux.Listen(meta.MuxHeader)
	go mux.Serve(ln)
	if err := s.Open(); err != nil {
		return nil, fmt.Errorf("meta service open: %v", err)
	}
	cl.svc = s
	for i := 0; i < 2; i++ {
		ccfg := meta.NewConfig()
		ccfg.Dir = filepath.Join(dir, fmt.Sprintf("client%d", i+1))
		if err := os.MkdirAll(ccfg.Dir, 0o755); err != nil {
			return nil, err
		}
		c := meta.NewClient(ccfg)
		c.SetMetaServers([]string{s.HTTPAddr()})
		c.SetTCPAddr([]string{node1TCP, node2TCP}[i])
		if err := c.Open(); err != nil {
			return nil, fmt.Errorf("meta client open: %v", err)
		}
		cl.c[i] = c
		rec := &recorder{}
		cl.rec[i] = rec
		pw := coordinator.NewPointsWriter()
		pw.MetaClient = c
		pw.TSDBStore = storeDouble{rec, c}
		pw.ShardWriter = remoteDouble{rec, "remote"}
		pw.HintedHandoff = hhDouble{remoteDouble{rec, "hh"}}
		pw.WriteTimeout = 60 * time.Second
		pw.Open()
		cl.pw[i] = pw
	}
	if _, err := cl.c[0].CreateDataNode("n1:8086", node1TCP); err != nil {
		return nil, fmt.Errorf("create data node: %v", err)
	}
	return cl, nil
}

func (cl *cluster) close() {
	for i := range cl.c {
		if cl.pw[i] != nil {
			cl.pw[i].Close()
		}
		if cl.c[i] != nil {
			cl.c[i].Close()
		}
	}
	if cl.svc != nil {
		cl.svc.Close()
	}
	if cl.ln != nil {
		cl.ln.Close()
	}
}

// ensureNodes makes the registered data-node set exactly n nodes (n1 is
// permanent and is the node client 1 identifies with; n2, when present, is
// the node of client 2).
func (cl *cluster) ensureNodes(n int) error {
	nodes := cl.c[0].DataNodes()
	for len(nodes) > n {
		last := nodes[len(nodes)-1]
		if last.TCPAddr == node1TCP {
			last = nodes[len(nodes)-2]
		}
		if err := cl.c[0].DeleteDataNode(last.ID); err != nil {
			return err
		}
		nodes = cl.c[0].DataNodes()
	}
	for len(nodes) < n {
		if err := cl.addNode(); err != nil {
			return err
		}
		nodes = cl.c[0].DataNodes()
	}
	return nil
}

func (cl *cluster) addNode() error {
	have := map[string]bool{}
	for _, nd := range cl.c[0].DataNodes() {
		have[nd.TCPAddr] = true
	}
	for k := 2; k <= 8; k++ {
		tcpAddr := fmt.Sprintf("n%d:8088", k)
		if !have[tcpAddr] {
			_, err := cl.c[0].CreateDataNode(fmt.Sprintf("n%d:8086", k), tcpAddr)
			return err
		}
	}
	return fmt.Errorf("no free node name")
}

// sync waits (watchdog, never a verdict) until client dst has seen at least
// the metadata index client src has.
func (cl *cluster) sync(src, dst int) bool {
	want := cl.c[src].Data().Index
	deadline := time.NewTimer(30 * time.Second)
	defer deadline.Stop()
	for {
		ch := cl.c[dst].WaitForDataChanged()
		if cl.c[dst].Data().Index >= want {
			return true
		}
		select {
		case <-ch:
		case <-deadline.C:
			return false
		}
	}
}

// ---------------------------------------------------------------- doubles

type delivery struct {
	Shard uint64
	Owner uint64
	Via   string // local | remote | hh
	pts   []models.Point
}

type recorder struct {
	mu   sync.Mutex
	dels []delivery
}

func (r *recorder) add(d delivery) {
	r.mu.Lock()
	r.dels = append(r.dels, d)
	r.mu.Unlock()
}

func (r *recorder) take() []delivery {
	r.mu.Lock()
	d := r.dels
	r.dels = nil
	r.mu.Unlock()
	return d
}

type storeDouble struct {
	rec *recorder
	c   *meta.Client
}

func (s storeDouble) CreateShard(database, retentionPolicy string, shardID uint64, enabled bool) error {
	return nil
}

func (s storeDouble) WriteToShard(shardID uint64, points []models.Point) error {
	s.rec.add(delivery{Shard: shardID, Owner: s.c.NodeID(), Via: "local", pts: append([]models.Point(nil), points...)})
	return nil
}

type remoteDouble struct {
	rec *recorder
	via string
}

func (s remoteDouble) WriteShard(shardID, ownerID uint64, points []models.Point) error {
	s.rec.add(delivery{Shard: shardID, Owner: ownerID, Via: s.via, pts: append([]models.Point(nil), points...)})
	return nil
}

type hhDouble struct{ remoteDouble }

func (h hhDouble) Empty(shardID, ownerID uint64) bool { return true }
