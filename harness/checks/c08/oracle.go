package main

import (
	"fmt"
	"sort"
	"strings"
	"time"

	"github.com/influxdata/influxdb/services/meta"
)

// ------------------------------------------------ independent series key/hash
//
// Nothing below calls into models: the canonical series key is the
// measurement with ',' and ' ' escaped, followed by ",key=value" for every
// tag in byte order of the tag key, with ',', ' ' and '=' escaped; the hash is
// FNV-64a (offset 14695981039346656037, prime 1099511628211).

func escapeWith(s string, special string) string {
	var b strings.Builder
	for i := 0; i < len(s); i++ {
		if strings.IndexByte(special, s[i]) >= 0 {
			b.WriteByte('\\')
		}
		b.WriteByte(s[i])
	}
	return b.String()
}

func escMeasurement(s string) string { return escapeWith(s, ", ") }
func escTag(s string) string         { return escapeWith(s, ", =") }

func canonicalKey(meas string, tags [][2]string) string {
	ts := append([][2]string(nil), tags...)
	sort.Slice(ts, func(i, j int) bool { return ts[i][0] < ts[j][0] })
	var b strings.Builder
	b.WriteString(escMeasurement(meas))
	for _, t := range ts {
		b.WriteByte(',')
		b.WriteString(escTag(t[0]))
		b.WriteByte('=')
		b.WriteString(escTag(t[1]))
	}
	return b.String()
}

func fnv64a(s string) uint64 {
	h := uint64(14695981039346656037)
	for i := 0; i < len(s); i++ {
		h ^= uint64(s[i])
		h *= 1099511628211
	}
	return h
}

// ------------------------------------------------------------- designation

type groupView struct {
	ID        uint64   `json:"id"`
	Start     string   `json:"start"`
	End       string   `json:"end"`
	Truncated string   `json:"truncated_at,omitempty"`
	Deleted   bool     `json:"deleted,omitempty"`
	Shards    []uint64 `json:"shards"`
}

func fmtT(t time.Time) string {
	return fmt.Sprintf("%s(%d)", t.UTC().Format("2006-01-02T15:04:05.000000000Z"), t.UnixNano())
}

func viewGroups(gs []meta.ShardGroupInfo) []groupView {
	out := make([]groupView, 0, len(gs))
	for i := range gs {
		g := &gs[i]
		v := groupView{ID: g.ID, Start: fmtT(g.StartTime), End: fmtT(g.EndTime), Deleted: !g.DeletedAt.IsZero()}
		if !g.TruncatedAt.IsZero() {
			v.Truncated = fmtT(g.TruncatedAt)
		}
		for _, s := range g.Shards {
			v.Shards = append(v.Shards, s.ID)
		}
		out = append(out, v)
	}
	return out
}

func isDeleted(g *meta.ShardGroupInfo) bool   { return !g.DeletedAt.IsZero() }
func isTruncated(g *meta.ShardGroupInfo) bool { return !g.TruncatedAt.IsZero() }
func inRange(g *meta.ShardGroupInfo, ts time.Time) bool {
	return !ts.Before(g.StartTime) && ts.Before(g.EndTime)
}

// designated returns the live groups that accept a write at ts: not deleted,
// Start <= ts < End, and not truncated or ts < TruncatedAt.
func designated(gs []meta.ShardGroupInfo, ts time.Time) []*meta.ShardGroupInfo {
	var out []*meta.ShardGroupInfo
	for i := range gs {
		g := &gs[i]
		if isDeleted(g) || !inRange(g, ts) {
			continue
		}
		if isTruncated(g) && !ts.Before(g.TruncatedAt) {
			continue
		}
		out = append(out, g)
	}
	return out
}

func groupOfShard(gs []meta.ShardGroupInfo, shard uint64) (*meta.ShardGroupInfo, int) {
	for i := range gs {
		for j := range gs[i].Shards {
			if gs[i].Shards[j].ID == shard {
				return &gs[i], j
			}
		}
	}
	return nil, -1
}

// isClipped reports whether a group's range is not a whole aligned period of
// one of the shard-group durations in use.
func isClipped(g *meta.ShardGroupInfo) bool {
	d := g.EndTime.Sub(g.StartTime)
	switch d {
	case time.Hour, 24 * time.Hour, 7 * 24 * time.Hour:
		return !g.StartTime.Truncate(d).Equal(g.StartTime)
	}
	return true
}

// ---------------------------------------------------------------- verdicts

const (
	sigLost         = "C08/conservation-point-lost"
	sigDup          = "C08/conservation-point-duplicated"
	sigForeign      = "C08/conservation-foreign-point"
	sigMutated      = "C08/point-mutated-by-routing"
	sigUnknownShard = "C08/point-in-unknown-shard"
	sigDeletedGroup = "C08/point-in-deleted-group"
	sigTruncGroup   = "C08/point-in-truncated-group-at-or-after-truncation"
	sigTruncFollow  = "C08/point-follows-batch-companion-into-truncated-group"
	sigOutside      = "C08/point-outside-its-group-range"
	sigWrongGroup   = "C08/point-not-in-designated-group"
	sigAmbiguous    = "C08/metadata-designates-two-live-groups"
	sigWrongShard   = "C08/wrong-shard-within-group"
	sigDroppedLive  = "C08/in-retention-point-dropped"
	sigKeptExpired  = "C08/expired-point-kept"
	// an expired point that is kept only because an in-retention point of the
	// same batch made MapShards fetch the (still live) group it falls into
	sigKeptExpiredCompanion = "C08/expired-point-kept-when-batch-companion-opens-its-group"
	sigEpochTrunc           = "C08/truncation-at-epoch-lost-in-metadata-encoding"
	sigMapErr               = "C08/routing-fails-for-in-retention-points"
	sigMinTime              = "C08/unroutable-at-min-time-group-start-overflow"
	sigContext              = "C08/same-point-different-shard-across-contexts"
	sigE2E                  = "C08/delivery-differs-from-designated-owners"
)

// epochStartUntruncated reports whether one of the groups starts exactly at
// the Unix epoch and appears un-truncated (see sigEpochTrunc).
func epochStartUntruncated(cands []*meta.ShardGroupInfo) bool {
	for _, g := range cands {
		if g.StartTime.UnixNano() == 0 && !isTruncated(g) {
			return true
		}
	}
	return false
}

type finding struct {
	Sig   string      `json:"signature"`
	What  string      `json:"what"`
	Point interface{} `json:"point,omitempty"`
}

// judgePoint judges one routed (kept) point against the metadata observed
// after the call. It returns "" when the point sits in the designated shard.
func judgeKept(gs []meta.ShardGroupInfo, p *genPoint, shard uint64) (sig, what string) {
	ts := p.t
	g, idx := groupOfShard(gs, shard)
	if g == nil {
		return sigUnknownShard, fmt.Sprintf("point ts=%s mapped to shard %d which no group of the policy contains", fmtT(ts), shard)
	}
	cands := designated(gs, ts)
	switch {
	case isDeleted(g):
		return sigDeletedGroup, fmt.Sprintf("point ts=%s mapped to shard %d of DELETED group %d", fmtT(ts), shard, g.ID)
	case !inRange(g, ts):
		return sigOutside, fmt.Sprintf("point ts=%s mapped to shard %d of group %d [%s,%s) which does not contain it", fmtT(ts), shard, g.ID, fmtT(g.StartTime), fmtT(g.EndTime))
	case isTruncated(g) && !ts.Before(g.TruncatedAt):
		succ := "no live group accepts the timestamp"
		if len(cands) > 0 {
			succ = fmt.Sprintf("designated group is %d", cands[0].ID)
		}
		return sigTruncGroup, fmt.Sprintf("point ts=%s mapped to shard %d of group %d truncated at %s (ts >= truncation time; %s)", fmtT(ts), shard, g.ID, fmtT(g.TruncatedAt), succ)
	case len(cands) >= 2 && epochStartUntruncated(cands):
		return sigEpochTrunc, fmt.Sprintf("point ts=%s: the client's metadata holds %d live groups accepting it (%d and %d); one of them starts exactly at the Unix epoch and shows no truncation, which is how a group truncated at its first nanosecond (TruncatedAt = 1970-01-01T00:00:00Z, encoded as 0 = 'not set') looks to every client, while the meta store treats it as closed and has created the other group over the same range",
			fmtT(ts), len(cands), cands[0].ID, cands[1].ID)
	case len(cands) >= 2:
		return sigAmbiguous, fmt.Sprintf("point ts=%s: metadata holds %d live groups accepting it (%d and %d)", fmtT(ts), len(cands), cands[0].ID, cands[1].ID)
	case len(cands) == 0 || cands[0].ID != g.ID:
		return sigWrongGroup, fmt.Sprintf("point ts=%s mapped to group %d, not the designated one", fmtT(ts), g.ID)
	}
	want := int(p.hash % uint64(len(g.Shards)))
	if idx != want {
		return sigWrongShard, fmt.Sprintf("series %q (fnv64a %d) in group %d with %d shards: mapped to shard index %d (id %d), hash mod shards = %d (id %d)",
			p.canon, p.hash, g.ID, len(g.Shards), idx, shard, want, g.Shards[want].ID)
	}
	return "", ""
}
