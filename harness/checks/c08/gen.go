package main

import (
	"fmt"
	"math"
	"math/rand"
	"strings"
	"time"

	"github.com/influxdata/influxdb/models"
	"github.com/influxdata/influxdb/services/meta"
)

// ------------------------------------------------------------------ series

type seriesDef struct {
	Meas  string      `json:"measurement"`
	Tags  [][2]string `json:"tags"`
	Canon string      `json:"canonical_key"`
	Hash  uint64      `json:"fnv64a"`
}

var (
	measPool = []string{"cpu", "mem", "cpu load", "a,b", "disk=x", "température", "net io,eth0", "m", "日本"}
	// Tag keys start with a distinct plain letter so that byte order of the
	// raw keys and of the escaped keys is the same (the line-protocol parser
	// sorts the escaped form; which of the two orders is "the" canonical one
	// for keys that differ only after an escaped character is not something
	// the property fixes).
	keySuffix = []string{"", "ost", "egion", " k", ",k", "=k", "é", "_id"}
	valPool   = []string{"a", "b", "server 1", "x,y", "k=v", "日本", "a b,c=d", "0", "us-west", "é=,"}
)

func genSeries(g *rand.Rand) *seriesDef {
	s := &seriesDef{Meas: measPool[g.Intn(len(measPool))]}
	if g.Intn(3) == 0 {
		s.Meas += fmt.Sprint(g.Intn(50))
	}
	nt := g.Intn(5)
	letters := g.Perm(8)
	for i := 0; i < nt; i++ {
		k := string(rune('a'+letters[i])) + keySuffix[g.Intn(len(keySuffix))]
		v := valPool[g.Intn(len(valPool))]
		if g.Intn(2) == 0 {
			v += fmt.Sprint(g.Intn(100))
		}
		s.Tags = append(s.Tags, [2]string{k, v})
	}
	s.Canon = canonicalKey(s.Meas, s.Tags)
	s.Hash = fnv64a(s.Canon)
	return s
}

// ------------------------------------------------------------------ points

type genPoint struct {
	ID     int64  `json:"id"`
	Series int    `json:"series"`
	TS     int64  `json:"ts"`
	Time   string `json:"time"`
	Form   string `json:"form"` // "NewPoint" or "line" (tags in the order of Perm)
	Perm   []int  `json:"tag_order,omitempty"`
	Why    string `json:"why"`

	t     time.Time
	canon string
	hash  uint64
}

func (h *hist) newPoint(series int, ts int64, why string) *genPoint {
	h.nextID++
	s := h.series[series]
	p := &genPoint{ID: h.nextID, Series: series, TS: ts, Why: why, t: time.Unix(0, ts), canon: s.Canon, hash: s.Hash, Form: "NewPoint"}
	p.Time = p.t.UTC().Format(time.RFC3339Nano)
	if len(s.Tags) > 0 && h.g.Intn(2) == 0 {
		p.Form = "line"
		p.Perm = h.g.Perm(len(s.Tags))
	}
	return p
}

// lineOf renders the point as line protocol with the tags in the order perm.
func lineOf(s *seriesDef, p *genPoint) string {
	var b strings.Builder
	b.WriteString(escMeasurement(s.Meas))
	for _, i := range p.Perm {
		b.WriteByte(',')
		b.WriteString(escTag(s.Tags[i][0]))
		b.WriteByte('=')
		b.WriteString(escTag(s.Tags[i][1]))
	}
	fmt.Fprintf(&b, " v=%di %d", p.ID, p.TS)
	return b.String()
}

// build makes the models.Point the coordinator sees: either through
// models.NewPoint with models.NewTags (sorted by construction) or through the
// line-protocol parser with the tags in a permuted order.
func (h *hist) build(p *genPoint) (models.Point, error) {
	s := h.series[p.Series]
	if p.Form == "line" {
		pts, err := models.ParsePointsWithPrecision([]byte(lineOf(s, p)), time.Unix(0, 0), "n")
		if err != nil {
			return nil, fmt.Errorf("line %q: %v", lineOf(s, p), err)
		}
		if len(pts) != 1 {
			return nil, fmt.Errorf("line %q parsed to %d points", lineOf(s, p), len(pts))
		}
		return pts[0], nil
	}
	m := map[string]string{}
	for _, t := range s.Tags {
		m[t[0]] = t[1]
	}
	return models.NewPoint(s.Meas, models.NewTags(m), models.Fields{"v": p.ID}, p.t)
}

func pointID(p models.Point) (int64, bool) {
	f, err := p.Fields()
	if err != nil {
		return 0, false
	}
	v, ok := f["v"].(int64)
	return v, ok
}

// ------------------------------------------------------------- timestamps

func clampTS(v int64) int64 {
	if v < models.MinNanoTime {
		return models.MinNanoTime
	}
	if v > models.MaxNanoTime {
		return models.MaxNanoTime
	}
	return v
}

func addSat(a, b int64) int64 {
	c := a + b
	if b > 0 && c < a {
		return math.MaxInt64
	}
	if b < 0 && c > a {
		return math.MinInt64
	}
	return c
}

func unixSat(t time.Time) int64 {
	if t.Before(time.Unix(0, math.MinInt64)) {
		return math.MinInt64
	}
	if t.After(time.Unix(0, math.MaxInt64)) {
		return math.MaxInt64
	}
	return t.UnixNano()
}

func smallOffset(g *rand.Rand, span time.Duration) int64 {
	switch g.Intn(9) {
	case 0, 1:
		return -1
	case 2, 3:
		return 0
	case 4, 5:
		return 1
	case 6:
		return -int64(time.Second)
	case 7:
		return int64(time.Second)
	default:
		return g.Int63n(int64(span)) - int64(span)/2
	}
}

// pickTS draws one timestamp aimed at the places where routing decisions
// change. gs is the policy's current group list (deleted ones included).
func (h *hist) pickTS(gs []meta.ShardGroupInfo, prev []*genPoint, extremes bool) (int64, string) {
	g := h.g
	sgd := h.curSGD
	k := g.Intn(100)
	switch {
	case k < 34 && len(gs) > 0:
		gr := &gs[g.Intn(len(gs))]
		edges := []time.Time{gr.StartTime, gr.EndTime}
		why := "group-edge"
		if isTruncated(gr) {
			edges = append(edges, gr.TruncatedAt, gr.TruncatedAt)
			why = "truncated-group-edge"
		}
		e := edges[g.Intn(len(edges))]
		return clampTS(addSat(unixSat(e), smallOffset(g, sgd))), why
	case k < 46 && len(h.truncs) > 0:
		t := h.truncs[g.Intn(len(h.truncs))]
		return clampTS(addSat(t, smallOffset(g, sgd))), "truncation-time"
	case k < 58:
		// aligned period boundary near the base, +-1ns
		n := int64(g.Intn(7) - 3)
		a := time.Unix(0, h.base).Truncate(sgd)
		return clampTS(addSat(addSat(unixSat(a), n*int64(sgd)), int64(g.Intn(3)-1))), "aligned-boundary"
	case k < 72:
		return clampTS(addSat(h.base, g.Int63n(5*int64(sgd))-2*int64(sgd))), "near-base"
	case k < 82 && h.D > 0:
		offs := []int64{0, int64(time.Millisecond), -int64(time.Millisecond), int64(time.Second), -int64(time.Second), int64(time.Hour), -int64(time.Hour), 5 * int64(time.Second), int64(time.Minute)}
		return clampTS(time.Now().Add(-h.D).UnixNano() + offs[g.Intn(len(offs))]), "retention-boundary"
	case k < 88 && extremes:
		switch g.Intn(6) {
		case 0:
			return models.MinNanoTime, "extreme-min"
		case 1:
			return models.MinNanoTime + 1, "extreme-min"
		case 2:
			return models.MaxNanoTime, "extreme-max"
		case 3:
			return models.MaxNanoTime - 1, "extreme-max"
		case 4:
			return clampTS(models.MinNanoTime + g.Int63n(8*24*int64(time.Hour))), "extreme-min-window"
		default:
			return clampTS(models.MaxNanoTime - g.Int63n(8*24*int64(time.Hour))), "extreme-max-window"
		}
	case k < 94 && len(prev) > 0:
		return prev[g.Intn(len(prev))].TS, "duplicate-timestamp"
	default:
		if h.D > 0 {
			// anywhere inside (and a little outside) the retention window
			span := int64(h.D) + int64(h.D)/8
			return clampTS(addSat(h.base, int64(sgd)-g.Int63n(span))), "in-retention-window"
		}
		return clampTS(addSat(h.base, g.Int63n(20*int64(sgd))-10*int64(sgd))), "wide"
	}
}

// genBatch draws a batch. Most of its points cluster around a few foci so that
// a batch straddles specific boundaries; the rest are spread.
func (h *hist) genBatch(gs []meta.ShardGroupInfo) []*genPoint {
	g := h.g
	var n int
	switch k := g.Intn(10); {
	case k == 0:
		n = 1
	case k < 4:
		n = 2 + g.Intn(4)
	case k < 8:
		n = 6 + g.Intn(35)
	default:
		n = 41 + g.Intn(160)
	}
	extremes := g.Intn(4) == 0
	nf := 1 + g.Intn(3)
	foci := make([]int64, nf)
	fwhy := make([]string, nf)
	for i := range foci {
		foci[i], fwhy[i] = h.pickTS(gs, nil, extremes)
	}
	pts := make([]*genPoint, 0, n)
	for i := 0; i < n; i++ {
		var ts int64
		var why string
		if g.Intn(3) == 0 {
			f := g.Intn(nf)
			ts, why = clampTS(addSat(foci[f], smallOffset(g, h.curSGD/4+1))), "focus:"+fwhy[f]
		} else {
			ts, why = h.pickTS(gs, pts, extremes)
		}
		var ser int
		if i > 0 && g.Intn(6) == 0 {
			// exact duplicate of an earlier point (same series, same timestamp)
			q := pts[g.Intn(len(pts))]
			ser, ts, why = q.Series, q.TS, "duplicate-point"
		} else {
			ser = g.Intn(len(h.series))
		}
		pts = append(pts, h.newPoint(ser, ts, why))
	}
	return pts
}
