// Wire segment of C03: the real coordinator.ShardWriter (connection pool,
// request/response framing, timeout handling) against a scripted remote owner.
//
// The doubles of the main enumeration answer the PointsWriter directly, so "the
// owner's answer to THIS write" is true by construction there. On the wire it
// is not: answers travel over pooled connections with a strict request/response
// alternation. Here every write carries a unique id, the scripted owner answers
// each id with "stored", "rejected <id>" or nothing-before-the-timeout (the
// late answer is released by the harness only after the call has returned, so no
// clock decides), and the monitor checks that what WriteShard reports for id i
// is the owner's answer to id i: nil only if the owner stored i, an error text
// only if it names i.
package main

import (
	"fmt"
	"math/rand"
	"net"
	"strings"
	"sync"
	"time"

	"github.com/influxdata/influxdb/coordinator"
	"github.com/influxdata/influxdb/models"
	"github.com/influxdata/influxdb/services/meta"
)

type wireKind uint8

const (
	wkStored wireKind = iota
	wkRejected
	wkLateStored // no answer before the timeout; "stored" is sent once the call has returned
	wkLateRejected
)

var wireKindName = [...]string{"stored", "rejected", "no-answer-then-late-stored", "no-answer-then-late-rejected"}

type wireOwner struct {
	ln     net.Listener
	mu     sync.Mutex
	script map[int64]wireKind
	gate   map[int64]chan struct{} // closed by the client once its call returned
	done   map[int64]chan struct{} // closed by the owner once the late answer was written (or the write failed)
	seen   map[int64]int
	conns  int
}

func newWireOwner() (*wireOwner, error) {
	ln, err := net.Listen("tcp", "127.0.0.1:0")
	if err != nil {
		return nil, err
	}
	o := &wireOwner{ln: ln, script: map[int64]wireKind{}, gate: map[int64]chan struct{}{}, done: map[int64]chan struct{}{}, seen: map[int64]int{}}
	go func() {
		for {
			c, err := ln.Accept()
			if err != nil {
				return
			}
			o.mu.Lock()
			o.conns++
			o.mu.Unlock()
			go o.serve(c)
		}
	}()
	return o, nil
}

func (o *wireOwner) plan(id int64, k wireKind) {
	o.mu.Lock()
	o.script[id] = k
	o.gate[id] = make(chan struct{})
	o.done[id] = make(chan struct{})
	o.mu.Unlock()
}

func (o *wireOwner) serve(c net.Conn) {
	defer c.Close()
	var hdr [1]byte
	if _, err := c.Read(hdr[:]); err != nil || hdr[0] != coordinator.MuxHeader {
		return
	}
	for {
		_, buf, err := coordinator.ReadTLV(c)
		if err != nil {
			return
		}
		var req coordinator.WriteShardRequest
		if err := req.UnmarshalBinary(buf); err != nil {
			return
		}
		pts := req.Points()
		if len(pts) == 0 {
			return
		}
		id := pts[0].UnixNano()
		o.mu.Lock()
		k := o.script[id]
		gate, done := o.gate[id], o.done[id]
		o.seen[id]++
		o.mu.Unlock()
		var resp coordinator.WriteShardResponse
		switch k {
		case wkStored:
			resp.SetCode(0)
		case wkRejected:
			resp.SetCode(1)
			resp.SetMessage(fmt.Sprintf("rejected-%d-", id))
		case wkLateStored, wkLateRejected:
			<-gate
			if k == wkLateStored {
				resp.SetCode(0)
			} else {
				resp.SetCode(1)
				resp.SetMessage(fmt.Sprintf("rejected-%d-", id))
			}
		}
		b, _ := resp.MarshalBinary()
		// response message type byte: the writer does not inspect it; the real
		// service sends writeShardResponseMessage (2)
		err = coordinator.WriteTLV(c, 2, b)
		if k == wkLateStored || k == wkLateRejected {
			close(done)
		}
		if err != nil {
			return
		}
	}
}

type wireMeta struct{ addr string }

func (m wireMeta) DataNode(id uint64) (*meta.NodeInfo, error) {
	return &meta.NodeInfo{ID: id, TCPAddr: m.addr}, nil
}
func (m wireMeta) ShardOwner(shardID uint64) (string, string, *meta.ShardGroupInfo) {
	return "db0", "rp0", &meta.ShardGroupInfo{ID: 1}
}

type wireWitness struct {
	Call     int64    `json:"write_id"`
	Scripted string   `json:"owner_answer_to_this_write"`
	Reported string   `json:"writer_reported"`
	History  []string `json:"earlier_writes_on_this_writer"`
}

func wireSegment() {
	if r.Skip("wire/seq") && r.Skip("wire/conc") {
		return
	}
	g := r.Rand("wire")
	rounds := r.Pick(6, 40)
	for round := 0; round < rounds; round++ {
		if !r.Skip("wire/seq") {
			wireRound("wire/seq", g.Int63(), 1, r.Pick(40, 80))
		}
		if !r.Skip("wire/conc") {
			wireRound("wire/conc", g.Int63(), 2+g.Intn(4), r.Pick(30, 60))
		}
	}
}

func wireRound(caseID string, seed int64, clients, calls int) {
	r.Eval(1)
	g := rand.New(rand.NewSource(seed))
	o, err := newWireOwner()
	if err != nil {
		r.Inconclusive(caseID + ": listen: " + err.Error())
		return
	}
	defer o.ln.Close()
	const ownerID = 7
	maxStreams := 1 + g.Intn(3)
	sw := coordinator.NewShardWriter(80*time.Millisecond, 2*time.Second, time.Minute, maxStreams)
	sw.MetaClient = wireMeta{addr: o.ln.Addr().String()}
	defer sw.Close()

	var hmu sync.Mutex
	var history []string
	var afterLate bool
	var wg sync.WaitGroup
	for cl := 0; cl < clients; cl++ {
		cg := rand.New(rand.NewSource(g.Int63()))
		base := int64(cl+1) * 1000000
		wg.Add(1)
		go func() {
			defer wg.Done()
			for i := 0; i < calls; i++ {
				id := base + int64(i)
				k := wkStored
				switch x := cg.Intn(10); {
				case x < 2:
					k = wkRejected
				case x < 3:
					k = wkLateStored
				case x < 4:
					k = wkLateRejected
				}
				o.plan(id, k)
				p, _ := models.NewPoint("m", models.NewTags(map[string]string{"t": "v"}), models.Fields{"f": float64(id)}, time.Unix(0, id))
				werr := sw.WriteShard(1, ownerID, []models.Point{p})
				o.mu.Lock()
				gate, done := o.gate[id], o.done[id]
				reached := o.seen[id] > 0
				o.mu.Unlock()
				close(gate)
				if (k == wkLateStored || k == wkLateRejected) && reached {
					<-done
				}
				reported := "success"
				if werr != nil {
					reported = "error: " + werr.Error()
				}
				hmu.Lock()
				history = append(history, fmt.Sprintf("write %d: owner %s -> %s", id, wireKindName[k], reported))
				hist := append([]string(nil), history...)
				if len(hist) > 12 {
					hist = hist[len(hist)-12:]
				}
				wasAfterLate := afterLate
				if k == wkLateStored || k == wkLateRejected {
					afterLate = true
				}
				hmu.Unlock()
				r.Count("wire_writes_"+wireKindName[k], 1)
				if wasAfterLate {
					r.Nontrivial(fmt.Sprintf("wire|%s|%s|clients=%d|streams=%d", caseID, wireKindName[k], clients, maxStreams))
				}
				w := wireWitness{Call: id, Scripted: wireKindName[k], Reported: reported, History: hist}
				switch {
				case werr == nil && k != wkStored:
					r.Violation("C03/wire/success-although-owner-did-not-store", caseID, fmt.Sprintf("ShardWriter.WriteShard reported success for write %d, which the owner answered with %q: the writer counted an owner as stored on an answer that belongs to another write", id, wireKindName[k]), w)
				case werr != nil && strings.Contains(werr.Error(), "rejected-") && !strings.Contains(werr.Error(), fmt.Sprintf("rejected-%d-", id)):
					r.Violation("C03/wire/answer-of-another-write", caseID, fmt.Sprintf("ShardWriter.WriteShard reported for write %d (owner: %s) the rejection of a different write: %v", id, wireKindName[k], werr), w)
				}
			}
		}()
	}
	wg.Wait()
	o.mu.Lock()
	r.Count("wire_connections_accepted", int64(o.conns))
	o.mu.Unlock()
}
