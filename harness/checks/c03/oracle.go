package main

// The oracle. Everything in this file is a pure function of the case tuple
// (level, per-owner outcome vector, intended arrival order) and is derived
// from the text of property C03 only; it does not look at how the writer is
// implemented.

import (
	"errors"

	"github.com/influxdata/influxdb/coordinator"
	"github.com/influxdata/influxdb/models"
)

// outcome is what one owner of the shard does with the write.
type outcome uint8

const (
	oStored       outcome = iota // the owner's store holds the points (remote: direct write acknowledged; local: store accepted)
	oRetryAcc                    // remote: direct write fails for a retryable reason, handoff accepts the enqueue
	oRetryRef                    // remote: direct write fails for a retryable reason, handoff refuses the enqueue
	oPermanent                   // remote: permanent rejection (hh.IsRetryable == false)
	oQneAcc                      // remote: handoff queue already non-empty, enqueue accepted
	oQneRef                      // remote: handoff queue already non-empty, enqueue refused
	oSilent                      // no answer before WriteTimeout (remote or local)
	oLocalErr                    // local: the store returns an error
	oLocalMissing                // local: ErrShardNotFound -> CreateShard -> stored
	oLocalMissingErr             // local: ErrShardNotFound -> CreateShard -> the retried write is rejected by the store
)

var outCode = [...]string{"S", "Ra", "Rr", "P", "Qa", "Qr", "X", "E", "M", "Me"}
var outName = [...]string{
	"stored", "retryable-failure+handoff-accepts", "retryable-failure+handoff-refuses", "permanent-rejection",
	"queue-nonempty+enqueue-accepted", "queue-nonempty+enqueue-refused", "no-answer", "local-store-error", "local-shard-missing-created-stored", "local-shard-missing-created-retry-rejected",
}

var remoteOutcomes = []outcome{oStored, oRetryAcc, oRetryRef, oPermanent, oQneAcc, oQneRef, oSilent}
var localOutcomes = []outcome{oStored, oLocalErr, oLocalMissing, oLocalMissingErr, oSilent}

var levels = []models.ConsistencyLevel{models.ConsistencyLevelAny, models.ConsistencyLevelOne, models.ConsistencyLevelQuorum, models.ConsistencyLevelAll}
var levelName = map[models.ConsistencyLevel]string{
	models.ConsistencyLevelAny: "any", models.ConsistencyLevelOne: "one",
	models.ConsistencyLevelQuorum: "quorum", models.ConsistencyLevelAll: "all",
}

// required owners for a level: "at least one owner (one), a majority of
// owners (quorum), every owner (all)"; any needs one stored-or-queued owner.
func required(level models.ConsistencyLevel, n int) int {
	switch level {
	case models.ConsistencyLevelQuorum:
		return n/2 + 1
	case models.ConsistencyLevelAll:
		return n
	}
	return 1
}

// storedInTime: the owner's store holds the points before the timeout.
func storedInTime(o outcome) bool { return o == oStored || o == oLocalMissing }

// queuedDurably: the points were accepted by the owner's handoff queue.
func queuedDurably(o outcome) bool { return o == oRetryAcc || o == oQneAcc }

// counts: does this owner count towards the level.
func counts(level models.ConsistencyLevel, o outcome) bool {
	return storedInTime(o) || (level == models.ConsistencyLevelAny && queuedDurably(o))
}

type errClass int

const (
	clNil errClass = iota
	clTimeout
	clPartial
	clFailed
)

var className = [...]string{"success", "timeout", "partial-write", "write-failed"}

func classify(err error) errClass {
	switch {
	case err == nil:
		return clNil
	case errors.Is(err, coordinator.ErrPartialWrite):
		return clPartial
	case errors.Is(err, coordinator.ErrTimeout):
		return clTimeout
	}
	return clFailed
}

// want is the verdict the property text demands for a case.
type want struct {
	Required  int  `json:"required"`
	Stored    int  `json:"stored_in_time"`
	Queued    int  `json:"queued_for_handoff"`
	Counting  int  `json:"owners_counting_towards_level"`
	Met       bool `json:"level_met"`
	Silent    bool `json:"some_owner_never_answers"`
	OnlyQueue bool `json:"met_only_by_enqueue_behind_nonempty_queue"`
	// Accept: when the level is not met and every owner answers, the error
	// classes that are legal. Always the class of the complete outcome vector
	// (too few successful owners => partial write, none => failure); plus,
	// because a level that can no longer be met may be reported before the
	// remaining owners answered, the class of every arrival prefix after which
	// the level is out of reach.
	Accept map[errClass]bool `json:"-"`
	Legal  []string          `json:"legal_results"`
}

func expect(level models.ConsistencyLevel, out []outcome, order []int) want {
	n := len(out)
	w := want{Required: required(level, n), Accept: map[errClass]bool{}}
	behind := 0
	for _, o := range out {
		if storedInTime(o) {
			w.Stored++
		}
		if queuedDurably(o) {
			w.Queued++
		}
		if counts(level, o) {
			w.Counting++
		}
		if o == oSilent {
			w.Silent = true
		}
		if o == oQneAcc {
			behind++
		}
	}
	w.Met = w.Counting >= w.Required
	if w.Met {
		w.OnlyQueue = level == models.ConsistencyLevelAny && w.Counting-behind < w.Required
		w.Legal = []string{className[clNil]}
		return w
	}
	if w.Silent {
		// an owner never answers and the level is not met by the others: the
		// write must not report success; which error is not constrained here
		// (timeout, or an early report of an unreachable level).
		w.Accept[clTimeout], w.Accept[clPartial], w.Accept[clFailed] = true, true, true
	} else {
		cls := func(k int) errClass {
			if k > 0 {
				return clPartial
			}
			return clFailed
		}
		w.Accept[cls(w.Counting)] = true
		seen := 0
		for k, i := range order {
			if counts(level, out[i]) {
				seen++
			}
			if seen+(n-(k+1)) < w.Required {
				w.Accept[cls(seen)] = true
			}
		}
	}
	for c := clTimeout; c <= clFailed; c++ {
		if w.Accept[c] {
			w.Legal = append(w.Legal, className[c])
		}
	}
	return w
}

// lateKind: what an owner that did not answer before the timeout does once
// it finally answers (after the write has returned).
type lateKind int

const (
	lateStored lateKind = iota // the direct / local write succeeds late
	lateFails                  // remote: a retryable error (i/o timeout); local: a store error
)

// wantHandoffOffers is the number of times the points for this owner must be
// offered to hinted handoff once every owner goroutine has finished:
// exactly once for a remote owner that could not be written for a retryable
// reason or that must wait behind a non-empty queue; never otherwise.
func wantHandoffOffers(o outcome, local bool, late lateKind) int {
	if local {
		return 0
	}
	switch o {
	case oRetryAcc, oRetryRef, oQneAcc, oQneRef:
		return 1
	case oSilent:
		if late == lateFails {
			return 1
		}
	}
	return 0
}

func ownerClass(o outcome, local bool, late lateKind) string {
	if local {
		return "local-owner"
	}
	switch o {
	case oStored:
		return "stored-owner"
	case oRetryAcc, oRetryRef:
		return "retryable-failure"
	case oPermanent:
		return "permanently-rejected-owner"
	case oQneAcc, oQneRef:
		return "owner-behind-nonempty-queue"
	case oSilent:
		if late == lateFails {
			return "retryable-failure-after-timeout"
		}
		return "owner-stored-after-timeout"
	}
	return "owner"
}
