package main

// Recording / gated doubles around the real coordinator.PointsWriter, and the
// sequencer that enforces an arrival order of the owners' answers.

import (
	"bytes"
	"context"
	"errors"
	"fmt"
	"regexp"
	"runtime"
	"runtime/pprof"
	"strings"
	"sync"
	"sync/atomic"
	"time"

	"github.com/influxdata/influxdb/coordinator"
	"github.com/influxdata/influxdb/models"
	"github.com/influxdata/influxdb/services/hh"
	"github.com/influxdata/influxdb/services/meta"
	"github.com/influxdata/influxdb/tsdb"
	"go.uber.org/zap"
	"go.uber.org/zap/zapcore"
)

const (
	dbName      = "db"
	rpName      = "rp"
	shardID     = uint64(7)
	groupID     = uint64(3)
	nonOwnerID  = uint64(99)
	ownerIDBase = uint64(11)
)

var thePoints = func() []models.Point {
	var pts []models.Point
	for i := 0; i < 3; i++ {
		p, err := models.NewPoint("m", models.NewTags(map[string]string{"host": fmt.Sprintf("h%d", i)}),
			map[string]interface{}{"v": float64(i) + 0.5}, time.Unix(1000+int64(i), 0))
		if err != nil {
			panic(err)
		}
		pts = append(pts, p)
	}
	return pts
}()

var thePointStrings = func() []string {
	var s []string
	for _, p := range thePoints {
		s = append(s, p.String())
	}
	return s
}()

func samePoints(pts []models.Point) bool {
	if len(pts) != len(thePoints) {
		return false
	}
	for i := range pts {
		if pts[i] == thePoints[i] {
			continue
		}
		if pts[i] == nil || pts[i].String() != thePointStrings[i] {
			return false
		}
	}
	return true
}

type callKind int

const (
	kDirect callKind = iota // ShardWriter.WriteShard
	kHH                     // HintedHandoff.WriteShard
	kEmpty                  // HintedHandoff.Empty
	kLocal                  // TSDBStore.WriteToShard
	kCreate                 // TSDBStore.CreateShard
	numKinds
)

var kindName = [...]string{"ShardWriter.WriteShard", "HintedHandoff.WriteShard", "HintedHandoff.Empty", "TSDBStore.WriteToShard", "TSDBStore.CreateShard"}

// call is one recorded call into a double.
type call struct {
	Seq      int    `json:"seq"`
	Kind     string `json:"call"`
	Shard    uint64 `json:"shard"`
	Node     uint64 `json:"node,omitempty"`
	Owner    int    `json:"owner_position"` // -1: not an owner of the shard
	PointsOK bool   `json:"carries_exactly_the_points"`
	Ret      string `json:"returned"`
	Extra    string `json:"args,omitempty"`
	AfterRet bool   `json:"entered_after_write_returned"`
	kind     callKind
}

type ownerState struct {
	idx    int
	nodeID uint64
	out    outcome
	local  bool
	late   lateKind
	// the call on which the owner waits (for its turn, or - a silent owner -
	// for the write to have returned) and the call whose return ends the
	// owner's activity.
	blockKind, finalKind callKind
	blockOrd, finalOrd   int
	arrived, release     chan struct{}
	done, consumed       chan struct{}
	consumedFlag         int32
	counts               [numKinds]int
	skipped              bool // the owner goroutine ended without making the expected call
}

type caseRun struct {
	spec  *caseSpec
	want  want
	label string

	mu            sync.Mutex
	calls         []call
	own           []*ownerState
	created       bool
	consumedOrder []int

	returned     chan struct{}
	retFlag      int32
	nodeIDCalls  int32 // every owner goroutine asks MetaClient.NodeID before anything else
	err          error
	startAt      time.Time
	lastDoneAt   time.Time
	timeout      time.Duration
	inconclusive string
	definitive   bool   // WriteTimeout cannot fire; a met level that is not reported is established from goroutine states
	workerGID    string
	parked       bool // writerParked evidence obtained
	lateReleased int // non-silent owners whose turn came after the write had returned
	syncFallback int
}

var caseSeq uint64

func newCaseRun(sp *caseSpec) *caseRun {
	c := &caseRun{spec: sp, returned: make(chan struct{})}
	c.want = expect(sp.Level, sp.Out, sp.Order)
	c.label = fmt.Sprint(atomic.AddUint64(&caseSeq, 1))
	for i, o := range sp.Out {
		os := &ownerState{idx: i, nodeID: ownerIDBase + uint64(i), out: o, local: i == sp.Coord, late: sp.late(i),
			arrived: make(chan struct{}), release: make(chan struct{}), done: make(chan struct{}), consumed: make(chan struct{})}
		if os.local {
			os.blockKind, os.finalKind = kLocal, kLocal
			if o == oLocalMissing || o == oLocalMissingErr {
				os.blockOrd, os.finalOrd = 1, 1
			}
		} else {
			switch o {
			case oStored, oPermanent:
				os.blockKind, os.finalKind = kDirect, kDirect
			case oRetryAcc, oRetryRef, oQneAcc, oQneRef:
				os.blockKind, os.finalKind = kHH, kHH
			case oSilent:
				os.blockKind, os.finalKind = kDirect, kDirect
				if os.late == lateFails {
					os.finalKind = kHH
				}
			}
		}
		c.own = append(c.own, os)
	}
	return c
}

// countingOwnersLoggedAsFailed: the writer logged "Write failed" for every
// owner whose outcome counts towards the level.
func (c *caseRun) countingOwnersLoggedAsFailed() bool {
	for _, o := range c.own {
		if counts(c.spec.Level, o.out) && atomic.LoadInt32(&o.consumedFlag) == 0 {
			return false
		}
	}
	return true
}

func (c *caseRun) coordNodeID() uint64 {
	if c.spec.Coord < c.spec.N {
		return ownerIDBase + uint64(c.spec.Coord)
	}
	return nonOwnerID
}

func (c *caseRun) ownerByNode(id uint64) *ownerState {
	if id >= ownerIDBase && id < ownerIDBase+uint64(len(c.own)) {
		return c.own[id-ownerIDBase]
	}
	return nil
}

func noop() {}

// enter records a call and, when it is the call the owner waits on, parks the
// calling goroutine until the sequencer releases it. The returned function
// must run when the double returns.
func (c *caseRun) enter(o *ownerState, kind callKind, shard, node uint64, ptsOK bool, ret func(ord int) string, extra string) (ord int, exit func()) {
	c.mu.Lock()
	idx := -1
	if o != nil {
		idx = o.idx
		ord = o.counts[kind]
		o.counts[kind]++
	}
	c.calls = append(c.calls, call{Seq: len(c.calls), Kind: kindName[kind], kind: kind, Shard: shard, Node: node, Owner: idx,
		PointsOK: ptsOK, Ret: ret(ord), Extra: extra, AfterRet: atomic.LoadInt32(&c.retFlag) == 1})
	c.mu.Unlock()
	if o == nil {
		return ord, noop
	}
	block := kind == o.blockKind && ord == o.blockOrd
	final := kind == o.finalKind && ord == o.finalOrd
	if block {
		close(o.arrived)
		c.gateWait(o)
	}
	if final {
		return ord, func() { close(o.done) }
	}
	return ord, noop
}

//go:noinline
func (c *caseRun) gateWait(o *ownerState) { <-o.release }

func errStr(err error) string {
	if err == nil {
		return "nil"
	}
	return err.Error()
}

// ------------------------------------------------------------------ doubles

var retryableErrs = []error{
	errors.New("dial tcp 10.0.0.2:8088: connect: connection refused"),
	errors.New("read tcp 10.0.0.1:51234->10.0.0.2:8088: i/o timeout"),
	errors.New("EOF"),
	errors.New("engine is closed"),
}

var permanentErrs = []error{
	errors.New(`field type conflict: input field "v" on measurement "m" is type float, already exists as type integer dropped=3`),
	errors.New("partial write: points beyond retention policy dropped=1"),
	tsdb.PartialWriteError{Reason: `field type conflict: input field "v" on measurement "m" is type float, already exists as type string`, Dropped: 3},
	errors.New(`write shard 7: field type conflict`),
}

var refusalErrs = []error{hh.ErrQueueFull, hh.ErrQueueBlocked, hh.ErrSegmentFull, errors.New("node processor is closed")}

var errLateRemote = errors.New("read tcp 10.0.0.1:51234->10.0.0.2:8088: i/o timeout")
var errLocalStore = errors.New("engine: cache-max-memory-size exceeded: (1073741824/1073741824)")
var errLateLocal = errors.New("engine: write timed out")

type shardWriterDouble struct{ c *caseRun }

func (s shardWriterDouble) response(o *ownerState) error {
	if o == nil || o.local {
		return nil
	}
	v := s.c.spec.variant(o.idx)
	switch o.out {
	case oRetryAcc, oRetryRef:
		return retryableErrs[v%len(retryableErrs)]
	case oPermanent:
		return permanentErrs[v%len(permanentErrs)]
	case oSilent:
		if o.late == lateFails {
			return errLateRemote
		}
	}
	return nil
}

func (s shardWriterDouble) WriteShard(shard, ownerID uint64, points []models.Point) error {
	o := s.c.ownerByNode(ownerID)
	err := s.response(o)
	_, exit := s.c.enter(o, kDirect, shard, ownerID, samePoints(points), func(int) string { return errStr(err) }, "")
	defer exit()
	return err
}

type hhDouble struct{ c *caseRun }

func (h hhDouble) WriteShard(shard, ownerID uint64, points []models.Point) error {
	o := h.c.ownerByNode(ownerID)
	var err error
	if o != nil && !o.local && (o.out == oRetryRef || o.out == oQneRef) {
		err = refusalErrs[(h.c.spec.variant(o.idx)/4)%len(refusalErrs)]
	}
	_, exit := h.c.enter(o, kHH, shard, ownerID, samePoints(points), func(int) string { return errStr(err) }, "")
	defer exit()
	return err
}

func (h hhDouble) Empty(shard, ownerID uint64) bool {
	o := h.c.ownerByNode(ownerID)
	empty := !(o != nil && !o.local && (o.out == oQneAcc || o.out == oQneRef))
	_, exit := h.c.enter(o, kEmpty, shard, ownerID, true, func(int) string { return fmt.Sprint(empty) }, "")
	defer exit()
	return empty
}

type storeDouble struct{ c *caseRun }

func (s storeDouble) localOwner() *ownerState {
	if s.c.spec.Coord < s.c.spec.N {
		return s.c.own[s.c.spec.Coord]
	}
	return nil
}

func (s storeDouble) WriteToShard(shard uint64, points []models.Point) error {
	o := s.localOwner()
	var err error
	resp := func(ord int) error {
		if o == nil {
			return nil
		}
		switch o.out {
		case oLocalErr:
			return errLocalStore
		case oLocalMissing:
			// c.mu is held by enter while this runs
			if ord == 0 || !s.c.created {
				return tsdb.ErrShardNotFound
			}
		case oLocalMissingErr:
			if ord == 0 || !s.c.created {
				return tsdb.ErrShardNotFound
			}
			return errLocalStore
		case oSilent:
			if o.late == lateFails {
				return errLateLocal
			}
		}
		return nil
	}
	_, exit := s.c.enter(o, kLocal, shard, s.c.coordNodeID(), samePoints(points), func(ord int) string { err = resp(ord); return errStr(err) }, "")
	defer exit()
	return err
}

func (s storeDouble) CreateShard(database, retentionPolicy string, shard uint64, enabled bool) error {
	o := s.localOwner()
	_, exit := s.c.enter(o, kCreate, shard, s.c.coordNodeID(), true, func(int) string { s.c.created = true; return "nil" },
		fmt.Sprintf("db=%s rp=%s enabled=%v", database, retentionPolicy, enabled))
	defer exit()
	return nil
}

type metaDouble struct{ c *caseRun }

func (m metaDouble) NodeID() uint64 {
	atomic.AddInt32(&m.c.nodeIDCalls, 1)
	return m.c.coordNodeID()
}

func (m metaDouble) Database(name string) *meta.DatabaseInfo {
	return &meta.DatabaseInfo{Name: name, DefaultRetentionPolicy: rpName}
}

func (m metaDouble) RetentionPolicy(database, policy string) (*meta.RetentionPolicyInfo, error) {
	return &meta.RetentionPolicyInfo{Name: rpName, ReplicaN: m.c.spec.N, ShardGroupDuration: 24 * time.Hour}, nil
}

func (m metaDouble) CreateShardGroup(database, policy string, ts time.Time) (*meta.ShardGroupInfo, error) {
	sh := meta.ShardInfo{ID: shardID}
	for _, o := range m.c.own {
		sh.Owners = append(sh.Owners, meta.ShardOwner{NodeID: o.nodeID})
	}
	return &meta.ShardGroupInfo{ID: groupID, StartTime: time.Unix(0, 0), EndTime: time.Unix(86400, 0), Shards: []meta.ShardInfo{sh}}, nil
}

// logCore observes the writer's log: the collecting loop logs "Write failed"
// with the owner's node id for every error answer it takes off the result
// channel, which tells the sequencer that the answer has arrived.
type logCore struct{ c *caseRun }

func (l logCore) Enabled(zapcore.Level) bool        { return true }
func (l logCore) With([]zapcore.Field) zapcore.Core { return l }
func (l logCore) Sync() error                       { return nil }
func (l logCore) Check(e zapcore.Entry, ce *zapcore.CheckedEntry) *zapcore.CheckedEntry {
	return ce.AddCore(e, l)
}
func (l logCore) Write(e zapcore.Entry, fields []zapcore.Field) error {
	if e.Message != "Write failed" {
		return nil
	}
	for _, f := range fields {
		if f.Key == "node_id" {
			if o := l.c.ownerByNode(uint64(f.Integer)); o != nil && atomic.CompareAndSwapInt32(&o.consumedFlag, 0, 1) {
				l.c.mu.Lock()
				l.c.consumedOrder = append(l.c.consumedOrder, o.idx)
				l.c.mu.Unlock()
				close(o.consumed)
			}
		}
	}
	return nil
}

// ---------------------------------------------------------------- sequencer

type awaitResult int

const (
	awOK    awaitResult = iota
	awGone              // no goroutine of this case is left that could still make the call
	awStuck             // watchdog
)

// await waits for ch. It never decides by the clock: when ch stays open it
// asks for a goroutine profile (goroutines of a case carry its pprof label)
// and reports awGone only when (1) every owner goroutine of the case had
// already started (each calls MetaClient.NodeID first) or the write had
// returned, and (2) a profile taken after that shows no owner goroutine of
// this case outside a gate, and (3) ch is still open afterwards: then the
// expected call can no longer happen.
func (c *caseRun) await(ch chan struct{}) awaitResult {
	select {
	case <-ch:
		return awOK
	default:
	}
	wait := 40 * time.Millisecond
	t := time.NewTimer(wait)
	defer t.Stop()
	begin := time.Now()
	for {
		select {
		case <-ch:
			return awOK
		case <-t.C:
		}
		if atomic.LoadInt32(&c.nodeIDCalls) >= int32(c.spec.N) || atomic.LoadInt32(&c.retFlag) == 1 {
			q := askInflight(c.label)
			select {
			case <-ch:
				return awOK
			case n := <-q.resp:
				if n == 0 {
					select {
					case <-ch:
						return awOK
					default:
						return awGone
					}
				}
			}
		}
		if time.Since(begin) > 60*time.Second {
			return awStuck
		}
		if wait < 320*time.Millisecond {
			wait *= 2
		}
		t.Reset(wait)
	}
}

// One profile serves every waiter that asked before it was taken.
type profReq struct {
	label string
	resp  chan int
}

var (
	profReqs     = make(chan profReq, 8192)
	profOnce     sync.Once
	profileDumps int64
	reLabel      = regexp.MustCompile(`"c03":"(\d+)"`)
)

func profiler() {
	for req := range profReqs {
		batch := []profReq{req}
	drain:
		for {
			select {
			case q := <-profReqs:
				batch = append(batch, q)
			default:
				break drain
			}
		}
		m, total := dumpInflight()
		for _, q := range batch {
			if q.label == "" {
				q.resp <- total
			} else {
				q.resp <- m[q.label]
			}
		}
		time.Sleep(5 * time.Millisecond) // pacing only: lets requests accumulate
	}
}

// inflightOf: owner goroutines (closures of writeToShardWithContext) of the
// labelled case that are not parked in a gate; "" = of any case.
func inflightOf(label string) int { return <-askInflight(label).resp }

func askInflight(label string) profReq {
	profOnce.Do(func() { go profiler() })
	q := profReq{label, make(chan int, 1)}
	profReqs <- q
	return q
}

// writerParked is the clock-free evidence that a writer does not report a
// level that was met: in one consistent dump of all goroutines, the goroutine
// that collects the owners' answers for the write started by goroutine
// workerGID is blocked in its select (a goroutine with an answer waiting in
// its channel is runnable, not blocked), and every owner goroutine it started
// has either ended - its answer was therefore sent - or is one of the owners
// that never answer, parked in a gate.
var (
	stackMu    sync.Mutex
	stackBuf   []byte
	stackDumps int64
	reGHeader  = regexp.MustCompile(`^goroutine (\d+) \[([^\]]+)\]:`)
)

func myGID() string {
	var b [64]byte
	n := runtime.Stack(b[:], false)
	if m := reGHeader.FindSubmatch(b[:n]); m != nil {
		return string(m[1])
	}
	return ""
}

func writerParked(workerGID string) bool {
	if workerGID == "" {
		return false
	}
	stackMu.Lock()
	defer stackMu.Unlock()
	atomic.AddInt64(&stackDumps, 1)
	if stackBuf == nil {
		stackBuf = make([]byte, 64<<20)
	}
	n := runtime.Stack(stackBuf, true)
	if n == len(stackBuf) {
		return false // truncated dump: no evidence
	}
	blocks := strings.Split(string(stackBuf[:n]), "\n\n")
	writer := ""
	for _, blk := range blocks {
		if strings.Contains(blk, "WritePointsPrivilegedWithContext in goroutine "+workerGID+"\n") &&
			strings.Contains(blk, "coordinator.(*PointsWriter).writeToShardWithContext(") {
			m := reGHeader.FindStringSubmatch(blk)
			if m == nil || !strings.HasPrefix(m[2], "select") {
				return false
			}
			writer = m[1]
		}
	}
	if writer == "" {
		return false
	}
	for _, blk := range blocks {
		if strings.Contains(blk, "writeToShardWithContext in goroutine "+writer+"\n") && !strings.Contains(blk, "(*caseRun).gateWait") {
			return false
		}
	}
	return true
}

func dumpInflight() (map[string]int, int) {
	atomic.AddInt64(&profileDumps, 1)
	var buf bytes.Buffer
	pprof.Lookup("goroutine").WriteTo(&buf, 1)
	m := map[string]int{}
	total := 0
	for _, blk := range strings.Split(buf.String(), "\n\n") {
		if !strings.Contains(blk, "writeToShardWithContext.func") || strings.Contains(blk, "(*caseRun).gateWait") {
			continue
		}
		cnt := 1
		fmt.Sscanf(strings.TrimSpace(blk), "%d @", &cnt)
		total += cnt
		if lm := reLabel.FindStringSubmatch(blk); lm != nil {
			m[lm[1]] += cnt
		}
	}
	return m, total
}

// worker runs cases one at a time: the write itself on the worker's own
// goroutine, the sequencer on a companion goroutine that lives as long as the
// worker (goroutine creation is what costs under the race detector).
type worker struct {
	seq     chan *caseRun
	seqDone chan struct{}
}

func newWorker() *worker {
	w := &worker{seq: make(chan *caseRun), seqDone: make(chan struct{})}
	go func() {
		for c := range w.seq {
			c.sequence()
			w.seqDone <- struct{}{}
		}
	}()
	return w
}

func (w *worker) close() { close(w.seq) }

// run executes the case against a fresh real PointsWriter.
func (c *caseRun) run(w *worker, timeout time.Duration) {
	c.timeout = timeout
	pw := coordinator.NewPointsWriter()
	pw.MetaClient = metaDouble{c}
	pw.TSDBStore = storeDouble{c}
	pw.ShardWriter = shardWriterDouble{c}
	pw.HintedHandoff = hhDouble{c}
	pw.WriteTimeout = timeout
	pw.Logger = zap.New(logCore{c})
	pw.Open()

	// goroutines started from here on inherit the label
	pprof.SetGoroutineLabels(pprof.WithLabels(context.Background(), pprof.Labels("c03", c.label)))
	if c.definitive {
		c.workerGID = myGID()
	}
	c.startAt = time.Now()
	w.seq <- c
	err := pw.WritePointsPrivileged(dbName, rpName, c.spec.Level, thePoints)
	c.err = err
	atomic.StoreInt32(&c.retFlag, 1)
	close(c.returned)
	<-w.seqDone
	pw.Close()
}

// sequence releases the answering owners in the case's arrival order, then -
// only after the write has returned - the owners that never answer, and waits
// until every owner made its last expected call.
func (c *caseRun) sequence() {
	sp := c.spec
	for _, i := range sp.Order {
		o := c.own[i]
		switch c.await(o.arrived) {
		case awGone:
			o.skipped = true
			close(o.release)
			continue
		case awStuck:
			c.inconclusive = fmt.Sprintf("owner %d never reached %s", i, kindName[o.blockKind])
			close(o.release)
			continue
		}
		if atomic.LoadInt32(&c.retFlag) == 1 {
			c.lateReleased++
		}
		close(o.release)
		switch c.await(o.done) {
		case awGone:
			o.skipped = true
			continue
		case awStuck:
			c.inconclusive = fmt.Sprintf("owner %d never returned from %s", i, kindName[o.finalKind])
			continue
		}
		c.lastDoneAt = time.Now()
		// Let the answer reach the collecting loop before the next owner is
		// released. An error answer is observable (log entry); a success
		// answer either ends the write or is only given a few yields.
		if storedInTime(o.out) {
			for k := 0; k < 4; k++ {
				select {
				case <-c.returned:
				default:
					runtime.Gosched()
				}
			}
			continue
		}
		select {
		case <-o.consumed:
		case <-c.returned:
		default:
			t := time.NewTimer(5 * time.Millisecond)
			select {
			case <-o.consumed:
			case <-c.returned:
			case <-t.C:
				c.syncFallback++
			}
			t.Stop()
		}
	}

	if c.definitive && c.inconclusive == "" {
		begin := time.Now()
	poll:
		for {
			t := time.NewTimer(200 * time.Millisecond)
			select {
			case <-c.returned:
				t.Stop()
				break poll
			case <-t.C:
			}
			if writerParked(c.workerGID) {
				select {
				case <-c.returned:
				default:
					c.parked = true
				}
				break poll
			}
			if time.Since(begin) > 120*time.Second {
				c.inconclusive = "the write neither returned nor was its collecting goroutine seen blocked with every answer taken"
				break poll
			}
		}
	} else {
		wd := time.NewTimer(c.timeout + 90*time.Second)
		select {
		case <-c.returned:
		case <-wd.C:
			c.inconclusive = "WritePointsPrivileged did not return"
		}
		wd.Stop()
	}
	// only now may the owners that "never answer" go on
	for _, o := range c.own {
		if o.out == oSilent {
			close(o.release)
		}
	}
	for _, o := range c.own {
		if o.out != oSilent {
			continue
		}
		switch c.await(o.done) {
		case awGone:
			o.skipped = true
		case awStuck:
			c.inconclusive = fmt.Sprintf("silent owner %d never returned from %s", o.idx, kindName[o.finalKind])
		}
	}
}
