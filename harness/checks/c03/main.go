// C03 — a cluster write honours the requested consistency level.
//
// Monitor: the REAL coordinator.PointsWriter (WritePointsPrivileged ->
// MapShards -> writeToShardWithContext) writes three points into one shard
// whose owners are chosen per case. MetaClient, TSDBStore, ShardWriter and
// HintedHandoff are recording doubles that play a scripted outcome per owner
// and are gated: the call after which an owner's goroutine answers returns
// only when that owner's turn in the case's arrival order has come; an owner
// that "never answers" is parked until the write has returned.
//
// Complete enumeration: replication 1..4 x coordinator position (each owner
// or a non-owner) x level x outcome per owner x arrival order of the owners
// that answer.
//
// Oracle (oracle.go): a pure function of the case tuple derived from the
// property text: the return value (nil iff the level is met; partial write /
// write failed classes otherwise) and, after every owner goroutine has
// finished, how often each owner's points were offered to hinted handoff.
package main

import (
	"bufio"
	"errors"
	"fmt"
	"hash/fnv"
	"os"
	"path/filepath"
	"runtime"
	"runtime/pprof"
	"strings"
	"sync"
	"sync/atomic"
	"time"

	"github.com/influxdata/influxdb/coordinator"
	"github.com/influxdata/influxdb/models"

	"verifharness/internal/ev"
)

func main() { ev.Supervise("C03", body) }

var r *ev.Run

// caseSpec is the case tuple.
type caseSpec struct {
	ID    string
	N     int
	Coord int // owner position of the coordinating node; N = not an owner
	Level models.ConsistencyLevel
	Out   []outcome
	Order []int // arrival order of the owners that answer before the timeout
	Var   uint64
}

func (sp *caseSpec) variant(i int) int { return int((sp.Var >> (8 * uint(i))) & 0x3f) }
func (sp *caseSpec) late(i int) lateKind {
	return lateKind((sp.Var >> (8*uint(i) + 7)) & 1)
}

func (sp *caseSpec) tupleID() string {
	var b strings.Builder
	fmt.Fprintf(&b, "n%d/", sp.N)
	if sp.Coord < sp.N {
		fmt.Fprintf(&b, "coord=owner%d/", sp.Coord)
	} else {
		b.WriteString("coord=non-owner/")
	}
	b.WriteString(levelName[sp.Level])
	b.WriteByte('/')
	for i, o := range sp.Out {
		if i > 0 {
			b.WriteByte(',')
		}
		b.WriteString(outCode[o])
	}
	b.WriteString("/order=")
	for _, i := range sp.Order {
		b.WriteByte(byte('0' + i))
	}
	return b.String()
}

type witness struct {
	Case      string   `json:"case"`
	N         int      `json:"replication"`
	Coord     string   `json:"coordinator"`
	Level     string   `json:"level"`
	Outcomes  []string `json:"owner_outcomes"`
	Order     []int    `json:"arrival_order"`
	Late      []string `json:"unanswered_owner_later"`
	TimeoutMS int64    `json:"write_timeout_ms"`
	Want      want     `json:"oracle"`
	Got       string   `json:"write_returned"`
	Calls     []call   `json:"calls_recorded"`
	Note      string   `json:"note,omitempty"`
}

func (c *caseRun) witness(note string) witness {
	sp := c.spec
	w := witness{Case: sp.ID, N: sp.N, Level: levelName[sp.Level], Order: sp.Order, Want: c.want, Note: note, TimeoutMS: c.timeout.Milliseconds()}
	if sp.Coord < sp.N {
		w.Coord = fmt.Sprintf("owner at position %d (node %d)", sp.Coord, ownerIDBase+uint64(sp.Coord))
	} else {
		w.Coord = fmt.Sprintf("not an owner (node %d)", nonOwnerID)
	}
	for i, o := range sp.Out {
		w.Outcomes = append(w.Outcomes, fmt.Sprintf("node %d: %s", ownerIDBase+uint64(i), outName[o]))
		if o == oSilent {
			w.Late = append(w.Late, fmt.Sprintf("node %d: %s", ownerIDBase+uint64(i), []string{"stores late", "fails late"}[sp.late(i)]))
		}
	}
	if c.inconclusive == "" {
		w.Got = errStr(c.err)
	} else {
		w.Got = "(did not return)"
	}
	c.mu.Lock()
	w.Calls = append([]call(nil), c.calls...)
	c.mu.Unlock()
	return w
}

// ---------------------------------------------------------------- enumerate

func permutations(xs []int) [][]int {
	if len(xs) == 0 {
		return [][]int{{}}
	}
	var out [][]int
	var rec func(cur []int, used []bool)
	rec = func(cur []int, used []bool) {
		if len(cur) == len(xs) {
			out = append(out, append([]int(nil), cur...))
			return
		}
		for i := range xs {
			if used[i] {
				continue
			}
			used[i] = true
			rec(append(cur, xs[i]), used)
			used[i] = false
		}
	}
	rec(nil, make([]bool, len(xs)))
	return out
}

// enumerate calls emit for every case of replication n, in a fixed order.
func enumerate(n int, allOrders bool, emit func(*caseSpec)) (tuples int) {
	rng := r.Rand(fmt.Sprintf("orders-n%d", n))
	out := make([]outcome, n)
	for coord := 0; coord <= n; coord++ {
		for _, lv := range levels {
			var rec func(pos int)
			rec = func(pos int) {
				if pos == n {
					var answering []int
					for i, o := range out {
						if o != oSilent {
							answering = append(answering, i)
						}
					}
					perms := permutations(answering)
					pick := rng.Intn(len(perms)) // drawn unconditionally
					for pi, p := range perms {
						if !allOrders && pi != pick {
							continue
						}
						sp := &caseSpec{N: n, Coord: coord, Level: lv, Out: append([]outcome(nil), out...), Order: p}
						sp.ID = sp.tupleID()
						h := fnv.New64a()
						fmt.Fprintf(h, "%d|%s", r.Seed, sp.ID)
						sp.Var = h.Sum64()
						tuples++
						emit(sp)
					}
					return
				}
				set := remoteOutcomes
				if pos == coord {
					set = localOutcomes
				}
				for _, o := range set {
					out[pos] = o
					rec(pos + 1)
				}
			}
			rec(0)
		}
	}
	return tuples
}

// -------------------------------------------------------------------- body

const (
	silentTimeout = 20 * time.Millisecond // WriteTimeout of cases with an owner that never answers
	longTimeout   = 10 * time.Minute      // every owner answers: the timer must never decide
	auditLag      = 4096                  // a case's calls are audited after this many later cases finished
)

func body() {
	r = ev.Start("C03", "fault_enumeration")
	r.Rule = "complete enumeration of (replication n in 1..4) x (coordinator = owner position 0..n-1 or a non-owner) x (level any|one|quorum|all) x (per remote owner: stored | retryable failure + handoff accepts | retryable failure + handoff refuses | permanent rejection | queue non-empty + enqueue accepted | queue non-empty + enqueue refused | no answer; per local owner: stored | store error | shard missing->created->stored | shard missing->created->retried write rejected | no answer) x (every arrival order of the answering owners; for n=4 one seeded order per tuple in quick, all in thorough). Seeded secondary choices (not part of the tuple): error texts, and whether an unanswered owner stores or fails once released after the write returned. Non-trivial: at least one owner outcome other than stored; distinct by the full tuple. Wire segment: the real ShardWriter (pool of 1-3 streams, 80 ms timeout) against a scripted owner, 1-5 concurrent clients, every write with a unique id answered stored | rejected | nothing until the call returned (then late stored / late rejected); what WriteShard reports for id i must be the owner's answer to id i."
	r.Assumptions = []string{
		"wire segment: the scripted owner speaks the cluster write protocol itself (no coordinator.Service); a late answer is released only after the timed-out call returned, so the 80 ms timeout never decides a verdict; an error reported for a write the owner stored is not judged (the property's direction is success => stored)",
		"MetaClient, TSDBStore, ShardWriter and HintedHandoff are doubles (main enumeration): 'stored' means the double acknowledged a write that carried exactly the shard's points; 'durably queued' means the HintedHandoff double accepted the enqueue (queue durability itself is C04)",
		"one shard group with one shard; three points that all map to it; AllowOutOfOrderWrites=false (default)",
		"an owner that never answers is parked until WritePointsPrivileged has returned (WriteTimeout 20 ms); all other owners answer when their turn comes, never by the clock; when every owner answers WriteTimeout is 10 min. A timeout reported although the answering owners met the level is believed only on clock-free evidence: the writer's log shows it treated every counting owner as failed, or (after repeats with 400 ms and then 10 min) a goroutine dump shows the collecting goroutine blocked with every answering owner goroutine ended",
		"arrival order: an owner's last double call returns in turn; an error answer is confirmed consumed through the writer's log before the next owner is released, a non-final success answer only gets a few scheduler yields (order then almost always, not provably, as intended; verdicts do not depend on it)",
		"the oracle tolerates an early report of a level that can no longer be met (error class of any arrival prefix after which the level is out of reach) and any non-nil error when an owner never answers and the level is unmet",
		"extra handoff offers are looked for after the owner goroutines ended: audit of a case's recorded calls is deferred by 4096 later cases, the tail waits until the goroutine profile shows no owner goroutine",
	}
	thorough := r.Thorough()
	if v := os.Getenv("C03_CPUPROFILE"); v != "" {
		f, _ := os.Create(v)
		pprof.StartCPUProfile(f)
		defer pprof.StopCPUProfile()
	}
	r.Floor = r.Pick(30000, 300000)

	// The work is chains of goroutine hand-offs, not computation: more than a
	// few Ps only adds cross-thread wake-ups (and contention inside the race
	// runtime), so the scheduler is kept small and the workers many (most of
	// a worker's time is spent waiting).
	procs := runtime.NumCPU()
	if procs > 8 {
		procs = 8
	}
	if v := os.Getenv("C03_PROCS"); v != "" {
		fmt.Sscan(v, &procs)
	}
	runtime.GOMAXPROCS(procs)
	workers := procs * 8
	if v := os.Getenv("C03_WORKERS"); v != "" {
		fmt.Sscan(v, &workers)
	}
	if r.ReplayCase() != "" {
		workers = 1
		r.Floor = 0
	}

	jobs := make(chan *caseSpec, 1024)
	audits := make(chan *caseRun, 1024)
	var wg sync.WaitGroup
	for w := 0; w < workers; w++ {
		wg.Add(1)
		go func() {
			defer wg.Done()
			wk := newWorker()
			defer wk.close()
			for sp := range jobs {
				oneCase(wk, sp, audits)
			}
		}()
	}
	// auditor: FIFO with a lag, so that a straggling extra call of a finished
	// case has long been recorded when the case is audited.
	var tail []*caseRun
	auditDone := make(chan struct{})
	go func() {
		defer close(auditDone)
		var q []*caseRun
		for c := range audits {
			q = append(q, c)
			if len(q) > auditLag {
				audit(q[0])
				q[0] = nil
				q = q[1:]
			}
		}
		tail = q
	}()

	total := 0
	perN := map[int]int{}
	serial := newWorker()
	for n := 1; n <= 4; n++ {
		all := n < 4 || thorough
		cnt := enumerate(n, all, func(sp *caseSpec) {
			if r.Skip(sp.ID) {
				return
			}
			if n == 1 {
				// smallest cases first and one at a time, so that a finding is
				// first reported on its minimal reproduction
				oneCase(serial, sp, audits)
				return
			}
			jobs <- sp
		})
		perN[n] = cnt
		total += cnt
	}
	close(jobs)
	serial.close()
	wg.Wait()
	close(audits)
	<-auditDone
	// tail: every case has finished its sequencing; wait until no owner
	// goroutine is left (watchdog only), then audit the rest.
	for i := 0; i < 2000; i++ {
		if inflightOf("") == 0 {
			break
		}
		time.Sleep(10 * time.Millisecond)
	}
	for _, c := range tail {
		audit(c)
	}

	r.Set("exhaustive_up_to_n", map[bool]int{false: 3, true: 4}[thorough])
	if thorough {
		r.Set("n4_arrival_orders", "complete")
	} else {
		r.Set("n4_arrival_orders", "one seeded order per (coordinator, level, outcome vector); all outcome vectors")
	}
	r.Set("distinct_case_tuples", total)
	r.Set("case_tuples_per_replication", perN)
	r.Set("workers", workers)
	r.Set("gomaxprocs", procs)
	r.Count("goroutine_profile_inspections", atomic.LoadInt64(&profileDumps))
	r.Count("goroutine_state_inspections", atomic.LoadInt64(&stackDumps))
	pprof.StopCPUProfile()
	wireSegment()
	raceReports()
	r.Finish()
}

func oneCase(wk *worker, sp *caseSpec, audits chan<- *caseRun) {
	n := r.Counter("cases_started")
	r.Count("cases_started", 1)
	if n%512 == 0 {
		r.Begin(sp.ID, sp)
	}
	var c *caseRun
	timeout := longTimeout
	for _, o := range sp.Out {
		if o == oSilent {
			timeout = silentTimeout
		}
	}
	for attempt := 0; ; attempt++ {
		c = newCaseRun(sp)
		c.definitive = attempt == 2
		if c.definitive {
			timeout = longTimeout
		}
		r.Eval(1)
		c.run(wk, timeout)
		// A level met by the answering owners but reported as a timeout may be
		// the clock (slow machine: the 20 ms timer beat the answers). It is
		// believed at once when the writer's own log shows that it took the
		// answer of every owner that counts towards the level off the channel
		// and treated it as a failure. Otherwise the case is repeated with
		// 400 ms and then with a WriteTimeout that cannot fire: there a correct
		// writer returns success as soon as it has the answers, and a writer
		// that does not is convicted from goroutine states (writerParked), not
		// from elapsed time.
		if c.inconclusive == "" && !c.definitive && c.want.Met && c.want.Silent && errors.Is(c.err, coordinator.ErrTimeout) {
			if c.countingOwnersLoggedAsFailed() {
				r.Count("timeout_with_level_met_confirmed_by_writer_log", 1)
				break
			}
			r.Count(fmt.Sprintf("timeout_escalations_from_%dms", timeout.Milliseconds()), 1)
			audits <- c
			timeout *= 20
			continue
		}
		break
	}
	judge(c)
	audits <- c
}

func judge(c *caseRun) {
	sp, w := c.spec, c.want
	if c.inconclusive != "" {
		r.Inconclusive(fmt.Sprintf("case %s: %s", sp.ID, c.inconclusive))
		return
	}
	lv := levelName[sp.Level]
	if c.parked {
		r.Count("met_level_unreported_shown_by_goroutine_states", 1)
		sig := fmt.Sprintf("C03/%s/%s-reported-although-level-met", lv, className[clTimeout])
		if w.OnlyQueue {
			sig = "C03/any/accepted-enqueue-behind-nonempty-queue-not-counted"
		}
		r.Violation(sig, sp.ID, fmt.Sprintf("level %s over %d owners needs %d, %d stored and %d were accepted by hinted handoff; with a WriteTimeout that cannot fire the collecting goroutine was found blocked although every answering owner's goroutine had ended: it has every answer and does not report success (timeout with any real WriteTimeout)",
			lv, sp.N, w.Required, w.Stored, w.Queued), c.witness("convicted from goroutine states, WriteTimeout 10 min"))
		return
	}
	got := classify(c.err)
	r.Count("returned_"+className[got], 1)
	switch {
	case w.Met && got != clNil:
		sig := fmt.Sprintf("C03/%s/%s-reported-although-level-met", lv, className[got])
		if w.OnlyQueue {
			sig = "C03/any/accepted-enqueue-behind-nonempty-queue-not-counted"
		}
		r.Violation(sig, sp.ID, fmt.Sprintf("level %s over %d owners needs %d, %d stored and %d were accepted by hinted handoff before the timeout, but the write returned %q",
			lv, sp.N, w.Required, w.Stored, w.Queued, errStr(c.err)), c.witness(""))
		return
	case !w.Met && got == clNil:
		sig := fmt.Sprintf("C03/%s/success-although-level-unmet", lv)
		r.Violation(sig, sp.ID, fmt.Sprintf("level %s over %d owners needs %d, only %d count (%d stored, %d queued for handoff), but the write reported success",
			lv, sp.N, w.Required, w.Counting, w.Stored, w.Queued), c.witness(""))
		return
	case !w.Met && !w.Accept[got]:
		var sig string
		switch got {
		case clPartial:
			sig = fmt.Sprintf("C03/%s/partial-write-reported-with-no-successful-owner", lv)
		case clFailed:
			sig = fmt.Sprintf("C03/%s/write-failed-reported-with-successful-owners", lv)
		default:
			sig = fmt.Sprintf("C03/%s/timeout-reported-though-every-owner-answered", lv)
		}
		r.Violation(sig, sp.ID, fmt.Sprintf("level %s over %d owners unmet with %d successful owner(s), every owner answered; legal: %v; the write returned %q",
			lv, sp.N, w.Counting, w.Legal, errStr(c.err)), c.witness(""))
		return
	}
	// monitor counters: what was actually seen
	if c.lateReleased > 0 {
		r.Count("cases_with_owner_answering_after_write_returned", 1)
	}
	if c.syncFallback > 0 {
		r.Count("arrival_sync_fallbacks", int64(c.syncFallback))
	}
	c.mu.Lock()
	co := append([]int(nil), c.consumedOrder...)
	c.mu.Unlock()
	if len(co) >= 2 {
		pos := map[int]int{}
		for k, i := range sp.Order {
			pos[i] = k
		}
		ok := true
		for k := 1; k < len(co); k++ {
			if pos[co[k-1]] > pos[co[k]] {
				ok = false
			}
		}
		if ok {
			r.Count("arrival_order_confirmed_by_writer_log", 1)
		} else {
			r.Count("arrival_order_not_as_intended", 1)
		}
	}
	if w.Met && w.Silent {
		r.Count("level_met_despite_unanswered_owner", 1)
	}
	if w.Met && len(sp.Order) > 0 && !counts(sp.Level, sp.Out[sp.Order[0]]) {
		r.Count("level_met_after_failing_owner_answered_first", 1)
	}
	trivial := true
	for _, o := range sp.Out {
		if o != oStored {
			trivial = false
		}
	}
	if !trivial {
		r.Nontrivial(sp.ID)
	}
	if r.WantSample() && sp.N >= 3 && !trivial && len(co) > 0 {
		r.Sample(c.witness(""))
	}
}

// audit checks the calls a finished case recorded: handoff offers per owner,
// the points every call carried, no direct write past a non-empty queue, and
// that every owner that counts as stored was given exactly the points.
func audit(c *caseRun) {
	sp := c.spec
	if c.inconclusive != "" {
		return
	}
	c.mu.Lock()
	calls := append([]call(nil), c.calls...)
	c.mu.Unlock()
	hhN := make([]int, sp.N)
	directN := make([]int, sp.N)
	storedOK := make([]bool, sp.N)
	r.Count("cases_audited", 1)
	for _, cl := range calls {
		if cl.Shard != shardID || (cl.Owner < 0 && cl.kind != kLocal && cl.kind != kCreate) {
			r.Violation("C03/calls/wrong-shard-or-node", sp.ID, fmt.Sprintf("%s addressed shard %d node %d; the write is for shard %d owned by nodes %d..%d",
				cl.Kind, cl.Shard, cl.Node, shardID, ownerIDBase, ownerIDBase+uint64(sp.N)-1), c.witness(""))
			return
		}
		switch cl.kind {
		case kHH:
			r.Count("handoff_offers_seen", 1)
			hhN[cl.Owner]++
			if !cl.PointsOK {
				r.Violation("C03/handoff/points-differ", sp.ID, fmt.Sprintf("the handoff offer for node %d did not carry exactly the shard's points", cl.Node), c.witness(""))
				return
			}
		case kDirect:
			r.Count("direct_writes_seen", 1)
			directN[cl.Owner]++
			if cl.Ret == "nil" && cl.PointsOK {
				storedOK[cl.Owner] = true
			}
		case kLocal:
			r.Count("local_writes_seen", 1)
			if cl.Owner >= 0 && cl.Ret == "nil" && cl.PointsOK {
				storedOK[cl.Owner] = true
			}
		case kCreate:
			r.Count("create_shard_seen", 1)
		}
	}
	for i, o := range sp.Out {
		local := i == sp.Coord
		late := sp.late(i)
		wantN := wantHandoffOffers(o, local, late)
		gotN := hhN[i]
		if gotN != wantN {
			k := fmt.Sprint(gotN)
			if gotN >= 2 {
				k = "2-or-more"
			}
			sig := fmt.Sprintf("C03/handoff/%s/offered-%s-times-expected-%d", ownerClass(o, local, late), k, wantN)
			r.Violation(sig, sp.ID, fmt.Sprintf("node %d (%s, outcome %s): its points were offered to hinted handoff %d time(s) after all owner goroutines ended, the property demands %d",
				ownerIDBase+uint64(i), map[bool]string{true: "the coordinator itself", false: "remote"}[local], outName[o], gotN, wantN), c.witness(""))
			return
		}
		if !local && (o == oQneAcc || o == oQneRef) && directN[i] > 0 {
			r.Violation("C03/handoff/direct-write-despite-nonempty-queue", sp.ID, fmt.Sprintf("node %d has a non-empty handoff queue (the write must wait behind it) but was also written directly %d time(s)",
				ownerIDBase+uint64(i), directN[i]), c.witness(""))
			return
		}
		if storedInTime(o) && !storedOK[i] && c.err == nil && c.want.Met {
			// the level was reported met, but an owner the case scripts as
			// "stored" never received exactly the points
			r.Violation("C03/store/stored-owner-did-not-get-the-points", sp.ID, fmt.Sprintf("node %d is scripted to store the write but no acknowledged write carried exactly the shard's points", ownerIDBase+uint64(i)), c.witness(""))
			return
		}
		if wantN == 1 {
			r.Count("handoff_exactly_once_confirmed", 1)
		}
	}
}

// raceReports surfaces data races the detector saw inside the coordinator.
func raceReports() {
	lp := ""
	for _, f := range strings.Fields(os.Getenv("GORACE")) {
		if strings.HasPrefix(f, "log_path=") {
			lp = strings.TrimPrefix(f, "log_path=")
		}
	}
	if lp == "" {
		return
	}
	files, _ := filepath.Glob(lp + ".*")
	total, inCoord := 0, 0
	first := ""
	for _, f := range files {
		fh, err := os.Open(f)
		if err != nil {
			continue
		}
		sc := bufio.NewScanner(fh)
		sc.Buffer(make([]byte, 1<<20), 1<<24)
		var cur []string
		flush := func() {
			if len(cur) == 0 {
				return
			}
			total++
			txt := strings.Join(cur, "\n")
			if strings.Contains(txt, "influxdb/coordinator.") {
				inCoord++
				if first == "" {
					first = txt
				}
			}
			cur = nil
		}
		for sc.Scan() {
			l := sc.Text()
			if strings.HasPrefix(l, "WARNING: DATA RACE") {
				flush()
			}
			if strings.HasPrefix(l, "==================") {
				continue
			}
			cur = append(cur, l)
		}
		flush()
		fh.Close()
	}
	r.Count("race_reports_total", int64(total))
	if inCoord > 0 {
		if len(first) > 3000 {
			first = first[:3000]
		}
		r.Violation("C03/data-race-in-coordinator", "race-detector", fmt.Sprintf("the race detector reported %d data race(s) with frames in the coordinator package", inCoord), map[string]interface{}{"first_report": first})
	}
}
