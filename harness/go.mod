module verifharness

go 1.21

require (
	github.com/anishathalye/porcupine v1.3.0
	github.com/golang/snappy v0.0.4
	github.com/influxdata/influxdb v0.0.0
)

require (
	github.com/cespare/xxhash v1.1.0 // indirect
	github.com/dgryski/go-bitstream v0.0.0-20180413035011-3522498ce2c8 // indirect
	github.com/glycerine/go-unsnap-stream v0.0.0-20180323001048-9f0cb55181dd // indirect
	github.com/gogo/protobuf v1.3.2 // indirect
	github.com/influxdata/influxql v1.2.0 // indirect
	github.com/influxdata/roaring v0.4.13-0.20180809181101-fc520f41fab6 // indirect
	github.com/jsternberg/zap-logfmt v1.2.0 // indirect
	github.com/jwilder/encoding v0.0.0-20170811194829-b4e1701a28ef // indirect
	github.com/mattn/go-isatty v0.0.16 // indirect
	github.com/philhofer/fwd v1.0.0 // indirect
	github.com/tinylib/msgp v1.1.0 // indirect
	github.com/xlab/treeprint v0.0.0-20180616005107-d6fb6747feb6 // indirect
	go.uber.org/atomic v1.7.0 // indirect
	go.uber.org/multierr v1.6.0 // indirect
	go.uber.org/zap v1.16.0 // indirect
	golang.org/x/sync v0.5.0 // indirect
	golang.org/x/sys v0.23.0 // indirect
	golang.org/x/time v0.0.0-20210220033141-f8bda1e9f3ba // indirect
)

replace github.com/influxdata/influxdb => /repo

replace github.com/influxdata/influxql => github.com/influxtsdb/influxql v1.1.1-0.20240810101344-3240ba2d3b01
