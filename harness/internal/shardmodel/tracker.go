package shardmodel

import (
	"fmt"
	"sort"
)

// Expect describes what a read may return for one (key, timestamp).
type Expect struct {
	Vals     []Val // acceptable values when present
	Required bool  // must be present
}

// Tracker wraps a Model with the bookkeeping of legitimate ambiguity:
// duplicate timestamps inside one batch (either value) and operations in
// flight at a crash point (old or new state).
type Tracker struct {
	M     *Model
	Ambig map[Key]map[int64][]Val // lasting: duplicates inside one acknowledged batch

	// Ever holds every value ever acknowledged for a (key, timestamp).
	Ever map[Key]map[int64][]Val
	// TolerateResurrected makes CheckRead accept (and count) a point that a
	// completed delete removed but that once held the returned value: that is
	// a violation of the delete property (C10), not of write durability.
	TolerateResurrected bool
	Resurrected         int
	// TolerateMissing makes CheckRead accept absent points (subset check).
	TolerateMissing bool
	// TolerateStale makes CheckRead accept any value the point ever held.
	TolerateStale bool

	// Pending describes the one operation in flight (crash images only).
	PendingWrite  []Point
	PendingDelete *PendingDel
}

// PendingDel is a delete in flight.
type PendingDel struct {
	Sel      Selector
	Min, Max int64
	DropMeas string // non-empty: whole-measurement drop
}

func NewTracker() *Tracker {
	return &Tracker{M: New(), Ambig: map[Key]map[int64][]Val{}, Ever: map[Key]map[int64][]Val{}}
}

func (t *Tracker) Clone() *Tracker {
	n := &Tracker{M: t.M.Clone(), Ambig: map[Key]map[int64][]Val{}, Ever: t.Ever, TolerateResurrected: t.TolerateResurrected, TolerateMissing: t.TolerateMissing, TolerateStale: t.TolerateStale}
	for k, tv := range t.Ambig {
		c := map[int64][]Val{}
		for ts, vs := range tv {
			c[ts] = append([]Val(nil), vs...)
		}
		n.Ambig[k] = c
	}
	n.PendingWrite = t.PendingWrite
	n.PendingDelete = t.PendingDelete
	return n
}

// ApplyWrite records an acknowledged batch. It returns the number of points
// the model says must have been dropped for a field type conflict.
func (t *Tracker) ApplyWrite(batch []Point) int {
	// clear ambiguity for everything this batch overwrites
	for _, p := range batch {
		if t.M.Conflicts(p) {
			continue
		}
		id := p.Series.ID()
		for f := range p.Fields {
			if a := t.Ambig[Key{id, f}]; a != nil {
				delete(a, p.Time)
			}
		}
	}
	for _, p := range batch {
		if t.M.Conflicts(p) {
			continue
		}
		id := p.Series.ID()
		for f, v := range p.Fields {
			k := Key{id, f}
			if t.Ever[k] == nil {
				t.Ever[k] = map[int64][]Val{}
			}
			t.Ever[k][p.Time] = append(t.Ever[k][p.Time], v)
		}
	}
	dropped, amb := t.M.Write(batch)
	for k, tv := range amb {
		if t.Ambig[k] == nil {
			t.Ambig[k] = map[int64][]Val{}
		}
		for ts, vs := range tv {
			t.Ambig[k][ts] = vs
		}
	}
	return dropped
}

// ApplyDelete records a completed delete.
func (t *Tracker) ApplyDelete(sel Selector, min, max int64) map[Key][]int64 {
	gone := t.M.DeleteRange(sel.Match, min, max)
	for k, tss := range gone {
		if a := t.Ambig[k]; a != nil {
			for _, ts := range tss {
				delete(a, ts)
			}
		}
	}
	return gone
}

// Expected returns what a read of key k may legally return.
func (t *Tracker) Expected(k Key) map[int64]Expect {
	out := map[int64]Expect{}
	for ts, v := range t.M.Data[k] {
		e := Expect{Vals: []Val{v}, Required: true}
		if a := t.Ambig[k]; a != nil {
			for _, alt := range a[ts] {
				e.Vals = append(e.Vals, alt)
			}
		}
		out[ts] = e
	}
	if t.PendingWrite != nil {
		for _, p := range t.PendingWrite {
			if p.Series.ID() != k.SeriesID {
				continue
			}
			v, ok := p.Fields[k.Field]
			if !ok {
				continue
			}
			e, exists := out[p.Time]
			if exists {
				e.Vals = append(e.Vals, v)
			} else {
				e = Expect{Vals: []Val{v}, Required: false}
			}
			out[p.Time] = e
		}
	}
	if d := t.PendingDelete; d != nil {
		s := t.M.SeriesOf[k.SeriesID]
		match := false
		if d.DropMeas != "" {
			match = s.Name == d.DropMeas
		} else {
			match = d.Sel.Match(s)
		}
		if match {
			for ts, e := range out {
				if d.DropMeas != "" || (ts >= d.Min && ts <= d.Max) {
					e.Required = false
					// A half-applied delete may have removed the newest value from one
					// file and not yet an older one from another: any value the point
					// ever held is tolerated while the delete is in flight.
					e.Vals = append(e.Vals, t.Ever[k][ts]...)
					out[ts] = e
				}
			}
		}
	}
	return out
}

// Mismatch describes a read that differs from what the model allows.
type Mismatch struct {
	Kind string // "order", "unexpected-point", "wrong-value", "missing-point"
	Key  Key
	T    int64
	Got  string
	Want string
}

func (m *Mismatch) Error() string {
	return fmt.Sprintf("%s key=%s#%s t=%d got=%s want=%s", m.Kind, m.Key.SeriesID, m.Key.Field, m.T, m.Got, m.Want)
}

// CheckRead judges one read of key k over [min,max] in the given direction.
func (t *Tracker) CheckRead(k Key, got []TV, min, max int64, asc bool) *Mismatch {
	exp := t.Expected(k)
	seen := map[int64]bool{}
	for i, p := range got {
		if i > 0 {
			prev := got[i-1].T
			if (asc && p.T <= prev) || (!asc && p.T >= prev) {
				return &Mismatch{"order", k, p.T, fmt.Sprintf("t=%d after t=%d (asc=%v)", p.T, prev, asc), "strictly monotonic timestamps, one point per timestamp"}
			}
		}
		if p.T < min || p.T > max {
			return &Mismatch{"out-of-range", k, p.T, p.V.String(), fmt.Sprintf("only points in [%d,%d]", min, max)}
		}
		e, ok := exp[p.T]
		if !ok {
			if t.TolerateResurrected && t.wasEver(k, p.T, p.V) {
				t.Resurrected++
				continue
			}
			return &Mismatch{"unexpected-point", k, p.T, p.V.String(), "no point at this timestamp"}
		}
		okv := false
		for _, v := range e.Vals {
			if v.Equal(p.V) {
				okv = true
				break
			}
		}
		if !okv && t.TolerateStale && t.wasEver(k, p.T, p.V) {
			okv = true
		}
		if !okv {
			return &Mismatch{"wrong-value", k, p.T, p.V.String(), fmt.Sprint(e.Vals)}
		}
		seen[p.T] = true
	}
	var missing []int64
	if t.TolerateMissing {
		return nil
	}
	for ts, e := range exp {
		if e.Required && ts >= min && ts <= max && !seen[ts] {
			missing = append(missing, ts)
		}
	}
	if len(missing) > 0 {
		sort.Slice(missing, func(i, j int) bool { return missing[i] < missing[j] })
		return &Mismatch{"missing-point", k, missing[0], fmt.Sprintf("absent (%d missing in range, %d returned)", len(missing), len(got)), fmt.Sprint(exp[missing[0]].Vals)}
	}
	return nil
}

func (t *Tracker) wasEver(k Key, ts int64, v Val) bool {
	for _, x := range t.Ever[k][ts] {
		if x.Equal(v) {
			return true
		}
	}
	return false
}

// CheckAll reads every key of the model (plus pending ones) through both read
// paths over the full range, ascending and descending, and returns the first
// mismatch or error. reads counts the reads performed.
func (t *Tracker) CheckAll(e *Env, both bool) (reads int, mm *Mismatch, err error) {
	return t.CheckRange(e, MinTime, MaxTime, both)
}

// keysWithPending lists model keys plus keys only a pending write mentions.
func (t *Tracker) keysWithPending() []Key {
	ks := t.M.Keys()
	if t.PendingWrite != nil {
		have := map[Key]bool{}
		for _, k := range ks {
			have[k] = true
		}
		for _, p := range t.PendingWrite {
			id := p.Series.ID()
			for f := range p.Fields {
				k := Key{id, f}
				if !have[k] {
					have[k] = true
					ks = append(ks, k)
				}
			}
		}
	}
	return ks
}

func (t *Tracker) seriesOf(id string) (Series, bool) {
	if s, ok := t.M.SeriesOf[id]; ok {
		return s, true
	}
	for _, p := range t.PendingWrite {
		if p.Series.ID() == id {
			return p.Series, true
		}
	}
	return Series{}, false
}

// CheckRange is CheckAll over [min,max].
func (t *Tracker) CheckRange(e *Env, min, max int64, both bool) (reads int, mm *Mismatch, err error) {
	keys := t.keysWithPending()
	dirs := []bool{true}
	if both {
		dirs = []bool{true, false}
	}
	// cursor path: per key
	for _, k := range keys {
		s, _ := t.seriesOf(k.SeriesID)
		for _, asc := range dirs {
			got, err := e.ReadCursor(s, k.Field, min, max, asc)
			if err != nil {
				return reads, nil, fmt.Errorf("cursor read %v: %w", k, err)
			}
			reads++
			if mm := t.CheckRead(k, got, min, max, asc); mm != nil {
				mm.Kind = "cursor/" + mm.Kind
				return reads, mm, nil
			}
		}
	}
	// iterator path: per (measurement, field); it also shows series the model does not know
	type mf struct{ m, f string }
	groups := map[mf]byte{}
	for _, k := range keys {
		s, _ := t.seriesOf(k.SeriesID)
		groups[mf{s.Name, k.Field}] = 0
	}
	gl := make([]mf, 0, len(groups))
	for g := range groups {
		gl = append(gl, g)
	}
	sort.Slice(gl, func(i, j int) bool { return gl[i].m+"\x00"+gl[i].f < gl[j].m+"\x00"+gl[j].f })
	for _, g := range gl {
		for _, asc := range dirs {
			got, err := e.ReadIterator(g.m, g.f, 0, min, max, asc)
			if err != nil {
				return reads, nil, fmt.Errorf("iterator read %s.%s: %w", g.m, g.f, err)
			}
			reads++
			for id, pts := range got {
				if mm := t.CheckRead(Key{id, g.f}, pts, min, max, asc); mm != nil {
					mm.Kind = "iterator/" + mm.Kind
					return reads, mm, nil
				}
			}
			// series the iterator did not return at all
			for _, k := range keys {
				s, _ := t.seriesOf(k.SeriesID)
				if s.Name != g.m || k.Field != g.f {
					continue
				}
				if _, ok := got[k.SeriesID]; ok {
					continue
				}
				if mm := t.CheckRead(k, nil, min, max, asc); mm != nil {
					mm.Kind = "iterator/" + mm.Kind
					return reads, mm, nil
				}
			}
		}
	}
	return reads, nil, nil
}
