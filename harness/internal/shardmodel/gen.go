package shardmodel

import (
	"fmt"
	"math"
	"math/rand"
	"strings"
)

// Op is one step of a history.
type Op struct {
	Kind string `json:"kind"` // write | snapshot | compact | delete | drop-measurement | reopen

	Batch []Point `json:"batch,omitempty"`

	Compact CompactKind `json:"compact,omitempty"`
	PPB     int         `json:"points_per_block,omitempty"`
	Arg     int         `json:"arg,omitempty"`

	Sel    Selector `json:"sel,omitempty"`
	Min    int64    `json:"min,omitempty"`
	Max    int64    `json:"max,omitempty"`
	HasMin bool     `json:"has_min,omitempty"`
	HasMax bool     `json:"has_max,omitempty"`
	Meas   string   `json:"measurement,omitempty"`
}

func (o Op) String() string {
	switch o.Kind {
	case "write":
		return fmt.Sprintf("write(%d pts)", len(o.Batch))
	case "compact":
		return fmt.Sprintf("compact(%v ppb=%d arg=%d)", o.Compact, o.PPB, o.Arg)
	case "delete":
		lo, hi := "-inf", "+inf"
		if o.HasMin {
			lo = fmt.Sprint(o.Min)
		}
		if o.HasMax {
			hi = fmt.Sprint(o.Max)
		}
		return fmt.Sprintf("delete(%s [%s,%s])", o.Sel, lo, hi)
	case "drop-measurement":
		return "drop-measurement(" + o.Meas + ")"
	}
	return o.Kind
}

// EffRange returns the inclusive range a delete op covers.
func (o Op) EffRange() (int64, int64) {
	min, max := int64(MinTime), int64(MaxTime)
	if o.HasMin {
		min = o.Min
	}
	if o.HasMax {
		max = o.Max
	}
	// The engine maps influxql.MinTime/MaxTime to the full int64 range; no
	// point can lie outside [MinTime, MaxTime] anyway.
	return min, max
}

// GenConfig tunes the history generator.
type GenConfig struct {
	Ops           int
	MaxBatch      int
	TimeDomain    int64 // timestamps mostly drawn from [0, TimeDomain)
	Extremes      bool  // include MinTime / MaxTime and extreme values
	Conflicts     bool  // include type-conflicting points (only against fields that have live data)
	DupInBatch    bool  // allow duplicate (series, field, ts) inside one batch
	Deletes       bool
	DropMeas      bool
	Reopen        bool
	Compactions   bool
	LongSeries    bool // one write of a long run so that full 1000-point blocks exist
	BigStrings    bool
	WeightWrite   int
	WeightSnap    int
	WeightCompact int
	WeightDelete  int
	WeightReopen  int
}

// DefaultGen is the configuration used by C02-like histories.
func DefaultGen() GenConfig {
	return GenConfig{Ops: 30, MaxBatch: 20, TimeDomain: 60, Extremes: true, Conflicts: true, DupInBatch: true,
		Deletes: true, DropMeas: true, Reopen: true, Compactions: true,
		WeightWrite: 10, WeightSnap: 4, WeightCompact: 4, WeightDelete: 2, WeightReopen: 1}
}

var (
	measurements = []string{"cpu", "mem"}
	hosts        = []string{"a", "b", "c"}
	regions      = []string{"x", "y", ""}
	// canonical field kinds by name
	fieldKinds = map[string]byte{"f0": 'f', "i0": 'i', "u0": 'u', "s0": 's', "b0": 'b', "f1": 'f'}
	fieldNames = []string{"f0", "i0", "u0", "s0", "b0", "f1"}
)

// Generator produces histories; it tracks which fields have live data so that
// type conflicts are generated only where the outcome is unambiguous.
type Generator struct {
	R   *rand.Rand
	Cfg GenConfig
	T   *Tracker // shadow of what the history has acknowledged so far (assuming every op succeeds)
	seq int64
}

func NewGenerator(r *rand.Rand, cfg GenConfig) *Generator {
	return &Generator{R: r, Cfg: cfg, T: NewTracker()}
}

func (g *Generator) series() Series {
	s := Series{Name: measurements[g.R.Intn(len(measurements))], Tags: map[string]string{"host": hosts[g.R.Intn(len(hosts))]}}
	if r := regions[g.R.Intn(len(regions))]; r != "" {
		s.Tags["region"] = r
	}
	return s
}

func (g *Generator) ts() int64 {
	if g.Cfg.Extremes && g.R.Intn(40) == 0 {
		switch g.R.Intn(4) {
		case 0:
			return MinTime
		case 1:
			return MaxTime
		case 2:
			return MinTime + 1 + int64(g.R.Intn(2))
		default:
			return MaxTime - 1 - int64(g.R.Intn(2))
		}
	}
	if g.R.Intn(25) == 0 {
		return -1 - g.R.Int63n(g.Cfg.TimeDomain)
	}
	return g.R.Int63n(g.Cfg.TimeDomain)
}

// Value draws a value of the given kind; every value is unique-ish through seq.
func (g *Generator) Value(kind byte) Val {
	g.seq++
	ext := g.Cfg.Extremes && g.R.Intn(12) == 0
	switch kind {
	case 'f':
		if ext {
			sp := []float64{0, math.Copysign(0, -1), math.SmallestNonzeroFloat64, math.MaxFloat64, -math.MaxFloat64, 1e-310}
			return Val{Kind: 'f', F: sp[g.R.Intn(len(sp))]}
		}
		return Val{Kind: 'f', F: float64(g.seq) / 8}
	case 'i':
		if ext {
			sp := []int64{math.MinInt64, math.MaxInt64, 0, -1}
			return Val{Kind: 'i', I: sp[g.R.Intn(len(sp))]}
		}
		return Val{Kind: 'i', I: g.seq}
	case 'u':
		if ext {
			sp := []uint64{0, math.MaxUint64, 1 << 63}
			return Val{Kind: 'u', U: sp[g.R.Intn(len(sp))]}
		}
		return Val{Kind: 'u', U: uint64(g.seq)}
	case 's':
		if ext {
			if g.Cfg.BigStrings && g.R.Intn(3) == 0 {
				return Val{Kind: 's', S: strings.Repeat("x", 64*1024-1) + fmt.Sprint(g.seq%10)}
			}
			return Val{Kind: 's', S: ""}
		}
		return Val{Kind: 's', S: fmt.Sprintf("v%d", g.seq)}
	default:
		return Val{Kind: 'b', B: g.seq%2 == 0}
	}
}

func (g *Generator) hasLive(measurement, field string) bool {
	for k, tv := range g.T.M.Data {
		if k.Field == field && len(tv) > 0 && g.T.M.SeriesOf[k.SeriesID].Name == measurement {
			return true
		}
	}
	return false
}

// Batch generates a write batch.
func (g *Generator) Batch() []Point {
	n := 1 + g.R.Intn(g.Cfg.MaxBatch)
	var batch []Point
	used := map[string]bool{}
	for i := 0; i < n; i++ {
		s := g.series()
		p := Point{Series: s, Fields: map[string]Val{}, Time: g.ts()}
		nf := 1 + g.R.Intn(3)
		for j := 0; j < nf; j++ {
			f := fieldNames[g.R.Intn(len(fieldNames))]
			kind := fieldKinds[f]
			if g.Cfg.Conflicts && g.R.Intn(12) == 0 && g.hasLive(s.Name, f) {
				// a deliberately conflicting type
				kinds := []byte{'f', 'i', 'u', 's', 'b'}
				k2 := kinds[g.R.Intn(len(kinds))]
				if k2 != kind {
					kind = k2
				}
			}
			p.Fields[f] = g.Value(kind)
		}
		if !g.Cfg.DupInBatch {
			dup := false
			for f := range p.Fields {
				if used[fmt.Sprintf("%s|%s|%d", s.ID(), f, p.Time)] {
					dup = true
				}
			}
			if dup {
				continue
			}
		}
		for f := range p.Fields {
			used[fmt.Sprintf("%s|%s|%d", s.ID(), f, p.Time)] = true
		}
		batch = append(batch, p)
	}
	if len(batch) == 0 {
		return g.Batch()
	}
	return batch
}

// LongBatch generates one series with n consecutive points (full blocks).
func (g *Generator) LongBatch(n int, start int64) []Point {
	s := Series{Name: "cpu", Tags: map[string]string{"host": "long"}}
	batch := make([]Point, 0, n)
	for i := 0; i < n; i++ {
		batch = append(batch, Point{Series: s, Fields: map[string]Val{"f0": g.Value('f'), "i0": g.Value('i')}, Time: start + int64(i)})
	}
	return batch
}

func (g *Generator) selector() Selector {
	sel := Selector{TagEq: map[string]string{}}
	switch g.R.Intn(6) {
	case 0: // everything
	case 1:
		sel.Measurement = measurements[g.R.Intn(len(measurements))]
	case 2:
		sel.TagEq["host"] = hosts[g.R.Intn(len(hosts))]
	case 3:
		sel.Measurement = measurements[g.R.Intn(len(measurements))]
		sel.TagEq["host"] = hosts[g.R.Intn(len(hosts))]
	case 4:
		sel.Measurement = measurements[g.R.Intn(len(measurements))]
		sel.TagEq["host"] = hosts[g.R.Intn(len(hosts))]
		sel.TagEq["region"] = regions[g.R.Intn(2)]
	default:
		sel.TagEq["region"] = regions[g.R.Intn(2)]
	}
	return sel
}

// DeleteOp generates a delete.
func (g *Generator) DeleteOp() Op {
	op := Op{Kind: "delete", Sel: g.selector()}
	switch g.R.Intn(6) {
	case 0: // everything in time
	case 1: // closed range
		a, b := g.ts(), g.ts()
		if a > b {
			a, b = b, a
		}
		op.Min, op.Max, op.HasMin, op.HasMax = a, b, true, true
	case 2: // single instant
		a := g.ts()
		op.Min, op.Max, op.HasMin, op.HasMax = a, a, true, true
	case 3: // open start
		op.Max, op.HasMax = g.ts(), true
	case 4: // open end
		op.Min, op.HasMin = g.ts(), true
	default:
		a := g.R.Int63n(g.Cfg.TimeDomain)
		op.Min, op.Max, op.HasMin, op.HasMax = a, a+g.R.Int63n(g.Cfg.TimeDomain/3+1), true, true
	}
	return op
}

// Next generates the next op and applies it to the generator's shadow model.
func (g *Generator) Next() Op {
	c := g.Cfg
	w := []int{c.WeightWrite, c.WeightSnap, 0, 0, 0}
	if c.Compactions {
		w[2] = c.WeightCompact
	}
	if c.Deletes {
		w[3] = c.WeightDelete
	}
	if c.Reopen {
		w[4] = c.WeightReopen
	}
	tot := 0
	for _, x := range w {
		tot += x
	}
	pick := g.R.Intn(tot)
	idx := 0
	for i, x := range w {
		if pick < x {
			idx = i
			break
		}
		pick -= x
	}
	var op Op
	switch idx {
	case 0:
		op = Op{Kind: "write", Batch: g.Batch()}
		g.T.ApplyWrite(op.Batch)
	case 1:
		op = Op{Kind: "snapshot"}
	case 2:
		ppbs := []int{0, 1, 2, 3, 10, 1000}
		op = Op{Kind: "compact", Compact: CompactKind(1 + g.R.Intn(numCompactKinds)), PPB: ppbs[g.R.Intn(len(ppbs))], Arg: g.R.Intn(1 << 20)}
	case 3:
		if c.DropMeas && g.R.Intn(6) == 0 {
			op = Op{Kind: "drop-measurement", Meas: measurements[g.R.Intn(len(measurements))]}
			g.T.ApplyDelete(Selector{Measurement: op.Meas}, MinTime, MaxTime)
		} else {
			op = g.DeleteOp()
			min, max := op.EffRange()
			g.T.ApplyDelete(op.Sel, min, max)
		}
	default:
		op = Op{Kind: "reopen"}
	}
	return op
}
