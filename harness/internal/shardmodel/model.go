// Package shardmodel is the last-write-wins reference model of one shard and
// the driver that applies the same operations to a real tsdb.Store.
package shardmodel

import (
	"fmt"
	"math"
	"sort"
	"strings"
)

// Val is one field value. Kind is one of 'f','i','u','s','b'.
type Val struct {
	Kind byte
	F    float64
	I    int64
	U    uint64
	S    string
	B    bool
}

func (v Val) Equal(o Val) bool {
	if v.Kind != o.Kind {
		return false
	}
	switch v.Kind {
	case 'f':
		return math.Float64bits(v.F) == math.Float64bits(o.F)
	case 'i':
		return v.I == o.I
	case 'u':
		return v.U == o.U
	case 's':
		return v.S == o.S
	case 'b':
		return v.B == o.B
	}
	return false
}

func (v Val) String() string {
	switch v.Kind {
	case 'f':
		return fmt.Sprintf("f:%v(%#x)", v.F, math.Float64bits(v.F))
	case 'i':
		return fmt.Sprintf("i:%d", v.I)
	case 'u':
		return fmt.Sprintf("u:%d", v.U)
	case 's':
		if len(v.S) > 24 {
			return fmt.Sprintf("s:%q..(%d)", v.S[:24], len(v.S))
		}
		return fmt.Sprintf("s:%q", v.S)
	case 'b':
		return fmt.Sprintf("b:%v", v.B)
	}
	return "?"
}

// Interface returns the value as the Go type models.NewPoint expects.
func (v Val) Interface() interface{} {
	switch v.Kind {
	case 'f':
		return v.F
	case 'i':
		return v.I
	case 'u':
		return v.U
	case 's':
		return v.S
	case 'b':
		return v.B
	}
	return nil
}

// Series identifies a series: measurement and tags.
type Series struct {
	Name string
	Tags map[string]string
}

// ID is the canonical text of a series (measurement,k=v,... with sorted keys).
func (s Series) ID() string {
	keys := make([]string, 0, len(s.Tags))
	for k := range s.Tags {
		keys = append(keys, k)
	}
	sort.Strings(keys)
	var b strings.Builder
	b.WriteString(s.Name)
	for _, k := range keys {
		b.WriteString(",")
		b.WriteString(k)
		b.WriteString("=")
		b.WriteString(s.Tags[k])
	}
	return b.String()
}

// Point is an abstract point.
type Point struct {
	Series Series
	Fields map[string]Val
	Time   int64
}

// Key is a series+field.
type Key struct {
	SeriesID string
	Field    string
}

// Alt is the set of values a timestamp may legally hold (more than one only
// when the outcome is legitimately ambiguous).
type Alt struct {
	Vals       []Val // acceptable values; the first is the model's preferred one
	MayBeGone  bool  // the point may legally be absent
	MayBeThere bool  // used with a deleted point that may legally still be present
}

// Model is the reference state of one shard.
type Model struct {
	Data      map[Key]map[int64]Val
	SeriesOf  map[string]Series // by id
	FieldType map[string]byte   // measurement \x00 field -> kind
}

func New() *Model {
	return &Model{Data: map[Key]map[int64]Val{}, SeriesOf: map[string]Series{}, FieldType: map[string]byte{}}
}

func (m *Model) Clone() *Model {
	n := New()
	for k, tv := range m.Data {
		c := make(map[int64]Val, len(tv))
		for t, v := range tv {
			c[t] = v
		}
		n.Data[k] = c
	}
	for k, v := range m.SeriesOf {
		n.SeriesOf[k] = v
	}
	for k, v := range m.FieldType {
		n.FieldType[k] = v
	}
	return n
}

func ftKey(measurement, field string) string { return measurement + "\x00" + field }

// Conflicts reports whether the point carries a field whose type conflicts
// with the type the field already has.
func (m *Model) Conflicts(p Point) bool {
	for f, v := range p.Fields {
		if t, ok := m.FieldType[ftKey(p.Series.Name, f)]; ok && t != v.Kind {
			return true
		}
	}
	return false
}

// Write applies an acknowledged batch; points for which Conflicts holds are
// skipped (and counted). Duplicate (key, ts) pairs inside the batch are
// reported so that the caller can accept either value.
func (m *Model) Write(batch []Point) (dropped int, ambiguous map[Key]map[int64][]Val) {
	seen := map[Key]map[int64][]Val{}
	for _, p := range batch {
		if m.Conflicts(p) {
			dropped++
			continue
		}
		id := p.Series.ID()
		m.SeriesOf[id] = p.Series
		for f, v := range p.Fields {
			m.FieldType[ftKey(p.Series.Name, f)] = v.Kind
			k := Key{id, f}
			if m.Data[k] == nil {
				m.Data[k] = map[int64]Val{}
			}
			m.Data[k][p.Time] = v
			if seen[k] == nil {
				seen[k] = map[int64][]Val{}
			}
			seen[k][p.Time] = append(seen[k][p.Time], v)
		}
	}
	for k, tv := range seen {
		for t, vs := range tv {
			if len(vs) > 1 {
				if ambiguous == nil {
					ambiguous = map[Key]map[int64][]Val{}
				}
				if ambiguous[k] == nil {
					ambiguous[k] = map[int64][]Val{}
				}
				ambiguous[k][t] = vs
			}
		}
	}
	return dropped, ambiguous
}

// DeleteRange removes the points of the series selected by sel with min <= ts <= max.
// It returns the removed (key, ts) pairs.
func (m *Model) DeleteRange(sel func(Series) bool, min, max int64) map[Key][]int64 {
	gone := map[Key][]int64{}
	for k, tv := range m.Data {
		s := m.SeriesOf[k.SeriesID]
		if !sel(s) {
			continue
		}
		for t := range tv {
			if t >= min && t <= max {
				gone[k] = append(gone[k], t)
				delete(tv, t)
			}
		}
		if len(tv) == 0 {
			delete(m.Data, k)
		}
	}
	return gone
}

// LiveSeries returns the ids of series that still have at least one point.
func (m *Model) LiveSeries() map[string]bool {
	live := map[string]bool{}
	for k, tv := range m.Data {
		if len(tv) > 0 {
			live[k.SeriesID] = true
		}
	}
	return live
}

// Points returns the sorted points of a key inside [min,max].
func (m *Model) Points(k Key, min, max int64, asc bool) []TV {
	tv := m.Data[k]
	out := make([]TV, 0, len(tv))
	for t, v := range tv {
		if t >= min && t <= max {
			out = append(out, TV{t, v})
		}
	}
	sort.Slice(out, func(i, j int) bool {
		if asc {
			return out[i].T < out[j].T
		}
		return out[i].T > out[j].T
	})
	return out
}

// Keys returns all keys in a stable order.
func (m *Model) Keys() []Key {
	ks := make([]Key, 0, len(m.Data))
	for k := range m.Data {
		ks = append(ks, k)
	}
	sort.Slice(ks, func(i, j int) bool {
		if ks[i].SeriesID != ks[j].SeriesID {
			return ks[i].SeriesID < ks[j].SeriesID
		}
		return ks[i].Field < ks[j].Field
	})
	return ks
}

// NumPoints returns the number of stored (key, ts) pairs.
func (m *Model) NumPoints() int {
	n := 0
	for _, tv := range m.Data {
		n += len(tv)
	}
	return n
}

// TV is a timestamped value.
type TV struct {
	T int64
	V Val
}
