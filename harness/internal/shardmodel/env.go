package shardmodel

import (
	"context"
	"fmt"
	"math"
	"os"
	"path/filepath"
	"sort"
	"strings"
	"time"

	"github.com/influxdata/influxdb/models"
	"github.com/influxdata/influxdb/query"
	"github.com/influxdata/influxdb/toml"
	"github.com/influxdata/influxdb/tsdb"
	_ "github.com/influxdata/influxdb/tsdb/engine"
	"github.com/influxdata/influxdb/tsdb/engine/tsm1"
	_ "github.com/influxdata/influxdb/tsdb/index"
	"github.com/influxdata/influxql"
	"go.uber.org/zap"
)

// Env is a real tsdb.Store with one database and (usually) one shard.
type Env struct {
	Root    string // contains data/ and wal/
	Index   string // "inmem" or "tsi1"
	DB, RP  string
	ShardID uint64
	Store   *tsdb.Store

	// Background level/cache compactions are kept out of deterministic runs.
	Background bool
	// TagKeys are the tag keys used as dimensions for iterator reads.
	TagKeys []string
	Logger  *zap.Logger
	// TSILogSize, when > 0, is the tsi1 MaxIndexLogFileSize (small values make
	// every write start a log-file compaction).
	TSILogSize int64
}

// NewEnv prepares (but does not open) an environment rooted at dir.
func NewEnv(root, index string) *Env {
	return &Env{Root: root, Index: index, DB: "db0", RP: "rp0", ShardID: 1, TagKeys: []string{"host", "region"}}
}

func (e *Env) DataDir() string { return filepath.Join(e.Root, "data") }
func (e *Env) WALDir() string  { return filepath.Join(e.Root, "wal") }

// ShardDir is the shard's data directory.
func (e *Env) ShardDir() string {
	return filepath.Join(e.DataDir(), e.DB, e.RP, fmt.Sprint(e.ShardID))
}

// ShardWALDir is the shard's WAL directory.
func (e *Env) ShardWALDir() string {
	return filepath.Join(e.WALDir(), e.DB, e.RP, fmt.Sprint(e.ShardID))
}

// Open opens the store (loading whatever is on disk) and creates the shard if missing.
func (e *Env) Open() error {
	s := tsdb.NewStore(e.DataDir())
	opts := tsdb.NewEngineOptions()
	opts.IndexVersion = e.Index
	opts.Config.WALDir = e.WALDir()
	opts.Config.Dir = e.DataDir()
	opts.Config.Index = e.Index
	if !e.Background {
		opts.Config.CacheSnapshotMemorySize = toml.Size(1 << 40)
		opts.Config.CacheMaxMemorySize = toml.Size(1 << 41)
		opts.Config.CacheSnapshotWriteColdDuration = toml.Duration(1000 * time.Hour)
		opts.Config.CompactFullWriteColdDuration = toml.Duration(1000 * time.Hour)
	}
	if e.Background {
		// stress runs: real background snapshots and compactions, firing often
		opts.Config.CacheSnapshotMemorySize = toml.Size(48 * 1024)
		opts.Config.CacheSnapshotWriteColdDuration = toml.Duration(300 * time.Millisecond)
		opts.Config.CompactFullWriteColdDuration = toml.Duration(1500 * time.Millisecond)
	}
	opts.Config.MaxConcurrentCompactions = 2
	if e.TSILogSize > 0 {
		opts.Config.MaxIndexLogFileSize = toml.Size(e.TSILogSize)
	}
	s.EngineOptions = opts
	if e.Logger != nil {
		s.WithLogger(e.Logger)
	}
	if err := os.MkdirAll(e.DataDir(), 0o755); err != nil {
		return err
	}
	if err := s.Open(); err != nil {
		return fmt.Errorf("store open: %w", err)
	}
	e.Store = s
	if s.Shard(e.ShardID) == nil {
		if !e.Background {
			// The product's own switch for "no background level compactions".
			os.MkdirAll(e.ShardDir(), 0o755)
			os.WriteFile(filepath.Join(e.ShardDir(), tsm1.DoNotCompactFile), nil, 0o644)
		}
		if err := s.CreateShard(e.DB, e.RP, e.ShardID, true); err != nil {
			s.Close()
			return fmt.Errorf("create shard: %w", err)
		}
	}
	return nil
}

// Close closes the store.
func (e *Env) Close() error {
	if e.Store == nil {
		return nil
	}
	err := e.Store.Close()
	e.Store = nil
	return err
}

// Shard returns the shard.
func (e *Env) Shard() *tsdb.Shard { return e.Store.Shard(e.ShardID) }

// Engine returns the shard's tsm1 engine.
func (e *Env) Engine() (*tsm1.Engine, error) {
	sh := e.Shard()
	if sh == nil {
		return nil, fmt.Errorf("shard %d not found", e.ShardID)
	}
	eng, err := sh.Engine()
	if err != nil {
		return nil, err
	}
	t, ok := eng.(*tsm1.Engine)
	if !ok {
		return nil, fmt.Errorf("engine is %T", eng)
	}
	return t, nil
}

// ToModels converts abstract points to models.Point values.
func ToModels(batch []Point) ([]models.Point, error) {
	out := make([]models.Point, 0, len(batch))
	for _, p := range batch {
		fields := models.Fields{}
		for k, v := range p.Fields {
			fields[k] = v.Interface()
		}
		mp, err := models.NewPoint(p.Series.Name, models.NewTags(p.Series.Tags), fields, time.Unix(0, p.Time))
		if err != nil {
			return nil, err
		}
		out = append(out, mp)
	}
	return out, nil
}

// WriteResult is the outcome of a write.
type WriteResult struct {
	Err     error
	Partial bool
	Dropped int
}

// Write writes a batch through Store.WriteToShard.
func (e *Env) Write(batch []Point) WriteResult {
	pts, err := ToModels(batch)
	if err != nil {
		return WriteResult{Err: fmt.Errorf("harness: cannot build points: %w", err)}
	}
	err = e.Store.WriteToShard(e.ShardID, pts)
	if err == nil {
		return WriteResult{}
	}
	if pw, ok := err.(tsdb.PartialWriteError); ok {
		return WriteResult{Err: err, Partial: true, Dropped: pw.Dropped}
	}
	return WriteResult{Err: err}
}

// Snapshot writes the cache to a TSM file.
func (e *Env) Snapshot() error {
	var err error
	for try := 0; try < 5; try++ {
		var eng *tsm1.Engine
		eng, err = e.Engine()
		if err != nil {
			return err
		}
		// A shard that is idle (empty cache, fully compacted) has its
		// compactions switched off by the store's monitor; the write path
		// switches them on again the same way.
		e.Shard().SetCompactionsEnabled(true)
		err = eng.WriteSnapshot()
		if err == nil || !strings.Contains(err.Error(), "disabled") {
			return err
		}
	}
	return err
}

// TSMFiles lists the shard's current TSM file paths in file-store order.
func (e *Env) TSMFiles() ([]string, error) {
	eng, err := e.Engine()
	if err != nil {
		return nil, err
	}
	var out []string
	for _, st := range eng.FileStore.Stats() {
		out = append(out, st.Path)
	}
	sort.Strings(out)
	return out, nil
}

// CompactKind selects a compaction.
type CompactKind int

const (
	CompactLevel1 CompactKind = iota + 1
	CompactLevel2
	CompactLevel3
	CompactPlanFull   // planner's full plan (ForceFull + Plan)
	CompactOptimize   // planner's optimize plan
	CompactAllFull    // CompactFull over every file
	CompactAllFast    // CompactFast over every file
	CompactAdjacent   // CompactFull/Fast over a run of adjacent files (arg selects)
	numCompactKinds = int(CompactAdjacent)
)

func (k CompactKind) String() string {
	return [...]string{"?", "level1", "level2", "level3", "plan-full", "optimize", "all-full", "all-fast", "adjacent"}[k]
}

// Compact runs one compaction the same way compactionStrategy.compactGroup
// does (Compact* then FileStore.ReplaceWithCallback). pointsPerBlock > 0 sets
// Compactor.Size. It returns the number of groups compacted.
func (e *Env) Compact(kind CompactKind, pointsPerBlock int, arg int) (int, error) {
	eng, err := e.Engine()
	if err != nil {
		return 0, err
	}
	if pointsPerBlock > 0 {
		eng.Compactor.Size = pointsPerBlock
	}
	var groups []tsm1.CompactionGroup
	release := false
	fast := false
	switch kind {
	case CompactLevel1, CompactLevel2, CompactLevel3:
		groups = eng.CompactionPlan.PlanLevel(int(kind))
		release = true
		fast = kind != CompactLevel3
	case CompactPlanFull:
		eng.CompactionPlan.ForceFull()
		groups = eng.CompactionPlan.Plan(time.Now().Add(-10000 * time.Hour))
		release = true
	case CompactOptimize:
		groups = eng.CompactionPlan.PlanOptimize()
		release = true
	case CompactAllFull, CompactAllFast:
		files, _ := e.TSMFiles()
		if len(files) >= 1 {
			groups = []tsm1.CompactionGroup{files}
		}
		fast = kind == CompactAllFast
	case CompactAdjacent:
		files, _ := e.TSMFiles()
		if len(files) >= 2 {
			i := (arg & 0xff) % (len(files) - 1)
			n := 2 + ((arg>>8)&0xff)%(len(files)-i-1)
			groups = []tsm1.CompactionGroup{files[i : i+n]}
			fast = (arg>>16)&1 == 1
		}
	}
	if release {
		defer eng.CompactionPlan.Release(groups)
	}
	done := 0
	for _, g := range groups {
		var files []string
		var err error
		for try := 0; try < 5; try++ {
			e.Shard().SetCompactionsEnabled(true) // see Snapshot
			if fast {
				files, err = eng.Compactor.CompactFast(g)
			} else {
				files, err = eng.Compactor.CompactFull(g)
			}
			if err == nil || !strings.Contains(err.Error(), "disabled") {
				break
			}
		}
		if err != nil {
			return done, fmt.Errorf("compact %v %v: %w", kind, base(g), err)
		}
		if err := eng.FileStore.ReplaceWithCallback(g, files, nil); err != nil {
			for _, f := range files {
				os.Remove(f)
			}
			return done, fmt.Errorf("replace after compact: %w", err)
		}
		done++
	}
	return done, nil
}

func base(paths []string) []string {
	out := make([]string, len(paths))
	for i, p := range paths {
		out[i] = filepath.Base(p)
	}
	return out
}

// Selector selects series for a delete.
type Selector struct {
	Measurement string            // "" = all measurements
	TagEq       map[string]string // tag = value predicates (AND)
}

func (s Selector) Match(x Series) bool {
	if s.Measurement != "" && x.Name != s.Measurement {
		return false
	}
	for k, v := range s.TagEq {
		if x.Tags[k] != v {
			return false
		}
	}
	return true
}

func (s Selector) String() string {
	var parts []string
	for k, v := range s.TagEq {
		parts = append(parts, k+"="+v)
	}
	sort.Strings(parts)
	return fmt.Sprintf("from=%q where=%s", s.Measurement, strings.Join(parts, ","))
}

// Delete runs Store.DeleteSeries (the DELETE / DROP SERIES path) for the
// selection and the inclusive time range. Open ends are expressed with
// hasMin/hasMax false.
func (e *Env) Delete(sel Selector, min, max int64, hasMin, hasMax bool) error {
	var sources []influxql.Source
	if sel.Measurement != "" {
		sources = append(sources, &influxql.Measurement{Name: sel.Measurement})
	}
	var conds []string
	keys := make([]string, 0, len(sel.TagEq))
	for k := range sel.TagEq {
		keys = append(keys, k)
	}
	sort.Strings(keys)
	for _, k := range keys {
		conds = append(conds, fmt.Sprintf("%s = '%s'", influxql.QuoteIdent(k), sel.TagEq[k]))
	}
	if hasMin {
		conds = append(conds, fmt.Sprintf("time >= %d", min))
	}
	if hasMax {
		conds = append(conds, fmt.Sprintf("time <= %d", max))
	}
	var cond influxql.Expr
	if len(conds) > 0 {
		var err error
		cond, err = influxql.ParseExpr(strings.Join(conds, " AND "))
		if err != nil {
			return fmt.Errorf("harness: bad delete condition: %w", err)
		}
	}
	return e.Store.DeleteSeries(e.DB, sources, cond)
}

// DropMeasurement runs Store.DeleteMeasurement.
func (e *Env) DropMeasurement(name string) error {
	return e.Store.DeleteMeasurement(e.DB, name)
}

// Reopen closes and reopens the store (clean restart).
func (e *Env) Reopen() error {
	if err := e.Close(); err != nil {
		return fmt.Errorf("close: %w", err)
	}
	return e.Open()
}

// ---------------------------------------------------------------- reads

// ReadIterator reads every series of a measurement's field through
// Shard.CreateIterator (the InfluxQL raw-select path), grouped by series id.
func (e *Env) ReadIterator(measurement, field string, kind byte, min, max int64, asc bool) (map[string][]TV, error) {
	sh := e.Shard()
	if sh == nil {
		return nil, fmt.Errorf("no shard")
	}
	opt := query.IteratorOptions{
		Expr:       &influxql.VarRef{Val: field},
		Dimensions: e.TagKeys,
		StartTime:  min,
		EndTime:    max,
		Ascending:  asc,
		Ordered:    true,
	}
	itr, err := sh.CreateIterator(context.Background(), &influxql.Measurement{Name: measurement}, opt)
	if err != nil {
		return nil, err
	}
	out := map[string][]TV{}
	if itr == nil {
		return out, nil
	}
	defer itr.Close()
	add := func(name string, tags query.Tags, t int64, v Val) {
		s := Series{Name: name, Tags: map[string]string{}}
		for k, val := range tags.KeyValues() {
			if val != "" {
				s.Tags[k] = val
			}
		}
		id := s.ID()
		out[id] = append(out[id], TV{t, v})
	}
	switch it := itr.(type) {
	case query.FloatIterator:
		for {
			p, err := it.Next()
			if err != nil {
				return nil, err
			}
			if p == nil {
				break
			}
			if p.Nil {
				continue
			}
			add(p.Name, p.Tags, p.Time, Val{Kind: 'f', F: p.Value})
		}
	case query.IntegerIterator:
		for {
			p, err := it.Next()
			if err != nil {
				return nil, err
			}
			if p == nil {
				break
			}
			if p.Nil {
				continue
			}
			add(p.Name, p.Tags, p.Time, Val{Kind: 'i', I: p.Value})
		}
	case query.UnsignedIterator:
		for {
			p, err := it.Next()
			if err != nil {
				return nil, err
			}
			if p == nil {
				break
			}
			if p.Nil {
				continue
			}
			add(p.Name, p.Tags, p.Time, Val{Kind: 'u', U: p.Value})
		}
	case query.StringIterator:
		for {
			p, err := it.Next()
			if err != nil {
				return nil, err
			}
			if p == nil {
				break
			}
			if p.Nil {
				continue
			}
			add(p.Name, p.Tags, p.Time, Val{Kind: 's', S: p.Value})
		}
	case query.BooleanIterator:
		for {
			p, err := it.Next()
			if err != nil {
				return nil, err
			}
			if p == nil {
				break
			}
			if p.Nil {
				continue
			}
			add(p.Name, p.Tags, p.Time, Val{Kind: 'b', B: p.Value})
		}
	default:
		return nil, fmt.Errorf("unexpected iterator type %T", itr)
	}
	return out, nil
}

// ReadCursor reads one series field through Shard.CreateCursorIterator (the
// storage read path).
func (e *Env) ReadCursor(s Series, field string, min, max int64, asc bool) ([]TV, error) {
	sh := e.Shard()
	if sh == nil {
		return nil, fmt.Errorf("no shard")
	}
	ci, err := sh.CreateCursorIterator(context.Background())
	if err != nil {
		return nil, err
	}
	cur, err := ci.Next(context.Background(), &tsdb.CursorRequest{
		Name: []byte(s.Name), Tags: models.NewTags(s.Tags), Field: field, Ascending: asc, StartTime: min, EndTime: max,
	})
	if err != nil {
		return nil, err
	}
	var out []TV
	if cur == nil {
		return out, nil
	}
	defer cur.Close()
	switch c := cur.(type) {
	case tsdb.FloatArrayCursor:
		for {
			a := c.Next()
			if a.Len() == 0 {
				break
			}
			for i := range a.Timestamps {
				out = append(out, TV{a.Timestamps[i], Val{Kind: 'f', F: a.Values[i]}})
			}
		}
	case tsdb.IntegerArrayCursor:
		for {
			a := c.Next()
			if a.Len() == 0 {
				break
			}
			for i := range a.Timestamps {
				out = append(out, TV{a.Timestamps[i], Val{Kind: 'i', I: a.Values[i]}})
			}
		}
	case tsdb.UnsignedArrayCursor:
		for {
			a := c.Next()
			if a.Len() == 0 {
				break
			}
			for i := range a.Timestamps {
				out = append(out, TV{a.Timestamps[i], Val{Kind: 'u', U: a.Values[i]}})
			}
		}
	case tsdb.StringArrayCursor:
		for {
			a := c.Next()
			if a.Len() == 0 {
				break
			}
			for i := range a.Timestamps {
				out = append(out, TV{a.Timestamps[i], Val{Kind: 's', S: a.Values[i]}})
			}
		}
	case tsdb.BooleanArrayCursor:
		for {
			a := c.Next()
			if a.Len() == 0 {
				break
			}
			for i := range a.Timestamps {
				out = append(out, TV{a.Timestamps[i], Val{Kind: 'b', B: a.Values[i]}})
			}
		}
	default:
		return nil, fmt.Errorf("unexpected cursor type %T", cur)
	}
	if err := cur.Err(); err != nil {
		return nil, err
	}
	return out, nil
}

// MinTime / MaxTime are the extreme timestamps a point may carry.
const (
	MinTime = models.MinNanoTime
	MaxTime = models.MaxNanoTime
)

var _ = math.MaxInt64
