// Package crashimg copies a live store directory as a crash image
// (process-kill semantics: everything written so far is in the page cache and
// survives) and manufactures torn tails.
package crashimg

import (
	"io"
	"os"
	"path/filepath"
	"strings"
	"syscall"
)

const (
	seekData = 3
	seekHole = 4
)

// CopyTree copies src to dst. Immutable files (installed *.tsm and
// *.tombstone, which are only ever created by rename) are hard-linked;
// everything else is copied, sparse-aware.
func CopyTree(src, dst string) error {
	return filepath.Walk(src, func(p string, info os.FileInfo, err error) error {
		if err != nil {
			if os.IsNotExist(err) {
				return nil // removed while walking: also a legal crash state
			}
			return err
		}
		rel, _ := filepath.Rel(src, p)
		target := filepath.Join(dst, rel)
		if info.IsDir() {
			return os.MkdirAll(target, 0o755)
		}
		if !info.Mode().IsRegular() {
			return nil
		}
		if strings.HasSuffix(p, ".tsm") || strings.HasSuffix(p, ".tombstone") {
			if err := os.Link(p, target); err == nil {
				return nil
			}
		}
		if err := copyFile(p, target, info.Size()); err != nil && !os.IsNotExist(err) {
			return err
		}
		return nil
	})
}

func copyFile(src, dst string, size int64) error {
	in, err := os.Open(src)
	if err != nil {
		return err
	}
	defer in.Close()
	out, err := os.OpenFile(dst, os.O_CREATE|os.O_WRONLY|os.O_TRUNC, 0o644)
	if err != nil {
		return err
	}
	defer out.Close()
	if size < 128*1024 {
		_, err = io.Copy(out, in)
		return err
	}
	// sparse-aware
	fd := int(in.Fd())
	var off int64
	buf := make([]byte, 256*1024)
	for off < size {
		dataStart, err := syscall.Seek(fd, off, seekData)
		if err != nil {
			break // ENXIO: no more data
		}
		holeStart, err := syscall.Seek(fd, dataStart, seekHole)
		if err != nil {
			holeStart = size
		}
		for pos := dataStart; pos < holeStart; {
			n := int64(len(buf))
			if holeStart-pos < n {
				n = holeStart - pos
			}
			m, rerr := in.ReadAt(buf[:n], pos)
			if m > 0 {
				if _, werr := out.WriteAt(buf[:m], pos); werr != nil {
					return werr
				}
			}
			pos += int64(m)
			if rerr != nil {
				if rerr == io.EOF {
					break
				}
				return rerr
			}
			if m == 0 {
				break
			}
		}
		off = holeStart
	}
	return out.Truncate(size)
}

// Rel maps a path under srcRoot to the same path under dstRoot.
func Rel(srcRoot, dstRoot, p string) string {
	rel, err := filepath.Rel(srcRoot, p)
	if err != nil {
		return p
	}
	return filepath.Join(dstRoot, rel)
}

// Listing returns "name:size" of every regular file under root (sorted walk order).
func Listing(root string) []string {
	var out []string
	filepath.Walk(root, func(p string, info os.FileInfo, err error) error {
		if err != nil || info.IsDir() {
			return nil
		}
		rel, _ := filepath.Rel(root, p)
		if strings.Contains(rel, "_series") {
			return nil
		}
		out = append(out, rel+":"+itoa(info.Size()))
		return nil
	})
	return out
}

func itoa(n int64) string {
	if n == 0 {
		return "0"
	}
	var b [20]byte
	i := len(b)
	for n > 0 {
		i--
		b[i] = byte('0' + n%10)
		n /= 10
	}
	return string(b[i:])
}
