package ev

import (
	"bufio"
	"bytes"
	"encoding/json"
	"fmt"
	"os"
	"os/exec"
	"path/filepath"
	"strings"
)

// Supervise runs body in a child process (re-executing the binary) and turns
// a crash of the child into a verdict. In the child it just calls body.
func Supervise(id string, body func()) {
	if os.Getenv("VERIF_CHILD") == "1" {
		body()
		return
	}
	root := os.Getenv("VERIF_ROOT")
	if root == "" {
		root = "/verif"
	}
	os.MkdirAll(filepath.Join(root, "logs"), 0o755)
	cur := filepath.Join(root, "logs", strings.ToLower(id)+".current")
	errPath := filepath.Join(root, "logs", strings.ToLower(id)+".child.stderr")
	os.Remove(cur)
	ef, err := os.Create(errPath)
	if err != nil {
		fmt.Fprintf(os.Stderr, "supervise: %v\n", err)
		os.Exit(2)
	}
	cmd := exec.Command(os.Args[0], os.Args[1:]...)
	cmd.Env = append(os.Environ(), "VERIF_CHILD=1", "VERIF_CURRENT="+cur)
	cmd.Stdout = os.Stdout
	cmd.Stderr = ef
	err = cmd.Run()
	ef.Close()
	code := 0
	if err != nil {
		if ee, ok := err.(*exec.ExitError); ok {
			code = ee.ExitCode() // -1 when killed by a signal
		} else {
			fmt.Fprintf(os.Stderr, "supervise: %v\n", err)
			os.Exit(2)
		}
	}
	switch code {
	case 0, 1:
		os.Exit(code)
	case ExitBroken:
		os.Exit(2)
	}
	// Abnormal death: classify.
	tail, kind, inTarget := classifyCrash(errPath)
	curb, _ := os.ReadFile(cur)
	if !inTarget {
		fmt.Printf("BROKEN-CHECK %s: child died (status %d, %s) outside the target code; no verdict\n%s\n", id, code, kind, tail)
		os.Exit(2)
	}
	// A crash inside the target code while executing a logged case.
	var curCase struct {
		Case string `json:"case"`
	}
	json.Unmarshal(curb, &curCase)
	r := &Run{ID: id, Root: root, Tier: os.Getenv("VERIF_TIER"), knownSeen: map[string]int{}, violSeen: map[string]int{}}
	if r.Tier == "" {
		r.Tier = "quick"
	}
	fmt.Sscan(os.Getenv("VERIF_SEED"), &r.Seed)
	if b, err := os.ReadFile(filepath.Join(root, "known_findings.json")); err == nil {
		var all []Finding
		json.Unmarshal(b, &all)
		for _, f := range all {
			if f.Property == id {
				r.findings = append(r.findings, f)
			}
		}
	}
	known := r.Violation(id+"/crash:"+kind, curCase.Case, "target process died: "+kind, map[string]interface{}{"current": json.RawMessage(orNull(curb)), "stderr_tail": tail})
	if known {
		// The crash is a listed finding but the run could not complete: no verdict.
		fmt.Printf("BROKEN-CHECK %s: run ended by a known crash; no verdict\n", id)
		os.Exit(2)
	}
	os.Exit(1)
}

func orNull(b []byte) []byte {
	if len(bytes.TrimSpace(b)) == 0 {
		return []byte("null")
	}
	return b
}

// classifyCrash reads the child's stderr and decides what killed it and
// whether the faulting goroutine was executing target (repository) code.
func classifyCrash(path string) (tail, kind string, inTarget bool) {
	f, err := os.Open(path)
	if err != nil {
		return "", "unknown", false
	}
	defer f.Close()
	var lines []string
	sc := bufio.NewScanner(f)
	sc.Buffer(make([]byte, 1<<20), 1<<24)
	for sc.Scan() {
		lines = append(lines, sc.Text())
	}
	start := -1
	for i, l := range lines {
		if strings.HasPrefix(l, "panic: ") || strings.HasPrefix(l, "fatal error: ") || strings.HasPrefix(l, "SIGQUIT") {
			start = i
			break
		}
	}
	if start < 0 {
		n := len(lines)
		if n > 15 {
			lines = lines[n-15:]
		}
		return strings.Join(lines, "\n"), "died without a Go crash report", false
	}
	kind = lines[start]
	if len(kind) > 160 {
		kind = kind[:160]
	}
	if strings.HasPrefix(kind, "SIGQUIT") {
		end := start + 40
		if end > len(lines) {
			end = len(lines)
		}
		return strings.Join(lines[start:end], "\n"), "watchdog (SIGQUIT)", false
	}
	// First goroutine block after the crash line is the faulting one.
	end := start + 60
	if end > len(lines) {
		end = len(lines)
	}
	seenG := false
	for i := start; i < len(lines); i++ {
		l := lines[i]
		if strings.HasPrefix(l, "goroutine ") {
			if seenG {
				break
			}
			seenG = true
			continue
		}
		if !seenG || strings.HasPrefix(l, "\t") || l == "" {
			continue
		}
		// function line
		if strings.HasPrefix(l, "runtime.") || strings.HasPrefix(l, "panic(") || strings.HasPrefix(l, "runtime/") ||
			strings.HasPrefix(l, "sync.") || strings.HasPrefix(l, "internal/") || strings.HasPrefix(l, "created by") {
			continue
		}
		if strings.HasPrefix(l, "github.com/influxdata/influxdb") || strings.HasPrefix(l, "github.com/influxdata/influxql") {
			inTarget = true
		} else if strings.HasPrefix(l, "verifharness") || strings.HasPrefix(l, "main.") {
			inTarget = false
		} else {
			// third-party/stdlib frame: keep looking for who called it
			continue
		}
		break
	}
	return strings.Join(lines[start:end], "\n"), kind, inTarget
}
