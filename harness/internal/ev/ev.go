// Package ev is the evidence / verdict plumbing shared by every check:
// seeds and tiers, case hashing, observation floors, known-findings
// classification, VIOLATION / KNOWN-FINDING lines, replay files and the
// evidence JSON file.
package ev

import (
	"crypto/sha1"
	"encoding/hex"
	"encoding/json"
	"fmt"
	"math/rand"
	"os"
	"path/filepath"
	"sort"
	"strconv"
	"sync"
	"time"
)

// Finding is one entry of known_findings.json.
type Finding struct {
	Property  string `json:"property"`
	Signature string `json:"signature"`
	Status    string `json:"status"` // "known" | "fixed"
	Commit    string `json:"commit,omitempty"`
	What      string `json:"what"`
}

// Run accumulates what a check observed.
type Run struct {
	mu sync.Mutex

	ID    string
	Tier  string
	Seed  int64
	Level string
	Root  string

	Rule        string
	Assumptions []string
	Floor       int // minimum distinct_nontrivial that must be observed

	start        time.Time
	evaluations  int64
	distinct     map[string]struct{}
	samples      []interface{}
	maxSamples   int
	extra        map[string]interface{}
	counters     map[string]int64
	violations   int
	inconclusive int
	knownSeen    map[string]int
	violSeen     map[string]int
	findings     []Finding
	replay       *Replay
}

// Replay is the content of a replay file.
type Replay struct {
	Property  string          `json:"property"`
	Seed      int64           `json:"seed"`
	Tier      string          `json:"tier"`
	Case      string          `json:"case"`
	Signature string          `json:"signature"`
	What      string          `json:"what"`
	Witness   json.RawMessage `json:"witness"`
}

// Start begins a run. level is the evidence level ("exploration", ...).
func Start(id, level string) *Run {
	r := &Run{
		ID: id, Level: level, start: time.Now(),
		distinct: map[string]struct{}{}, extra: map[string]interface{}{},
		counters: map[string]int64{}, knownSeen: map[string]int{}, violSeen: map[string]int{},
		maxSamples: 6,
	}
	r.Tier = os.Getenv("VERIF_TIER")
	if r.Tier != "thorough" {
		r.Tier = "quick"
	}
	r.Seed = 1
	if s := os.Getenv("VERIF_SEED"); s != "" {
		if v, err := strconv.ParseInt(s, 10, 64); err == nil {
			r.Seed = v
		}
	}
	r.Root = os.Getenv("VERIF_ROOT")
	if r.Root == "" {
		r.Root = "/verif"
	}
	if b, err := os.ReadFile(filepath.Join(r.Root, "known_findings.json")); err == nil {
		var all []Finding
		if err := json.Unmarshal(b, &all); err != nil {
			fmt.Fprintf(os.Stderr, "known_findings.json unreadable: %v\n", err)
			os.Exit(2)
		}
		for _, f := range all {
			if f.Property == id {
				r.findings = append(r.findings, f)
			}
		}
	}
	if p := os.Getenv("VERIF_REPLAY"); p != "" {
		b, err := os.ReadFile(p)
		if err != nil {
			fmt.Fprintf(os.Stderr, "cannot read replay file: %v\n", err)
			os.Exit(2)
		}
		var rp Replay
		if err := json.Unmarshal(b, &rp); err != nil {
			fmt.Fprintf(os.Stderr, "cannot parse replay file: %v\n", err)
			os.Exit(2)
		}
		r.replay = &rp
		r.Seed = rp.Seed
		r.Tier = rp.Tier
	}
	fmt.Printf("check %s tier=%s seed=%d\n", id, r.Tier, r.Seed)
	return r
}

// Thorough reports whether the thorough tier was requested.
func (r *Run) Thorough() bool { return r.Tier == "thorough" }

// Pick returns q in the quick tier and t in the thorough tier.
func (r *Run) Pick(q, t int) int {
	if r.Thorough() {
		return t
	}
	return q
}

// ReplayCase returns the case id to replay ("" when not replaying).
func (r *Run) ReplayCase() string {
	if r.replay == nil {
		return ""
	}
	return r.replay.Case
}

// Skip reports whether a case must be skipped because another one is being replayed.
func (r *Run) Skip(caseID string) bool {
	return r.replay != nil && r.replay.Case != caseID
}

// Rand returns a PRNG for a named sub-stream of this run's seed.
func (r *Run) Rand(stream string) *rand.Rand {
	h := sha1.Sum([]byte(fmt.Sprintf("%d/%s", r.Seed, stream)))
	var s int64
	for i := 0; i < 8; i++ {
		s = s<<8 | int64(h[i])
	}
	return rand.New(rand.NewSource(s))
}

// Eval counts executed cases.
func (r *Run) Eval(n int) {
	r.mu.Lock()
	r.evaluations += int64(n)
	r.mu.Unlock()
}

// Nontrivial records a distinct non-trivial case by its key.
func (r *Run) Nontrivial(key string) {
	h := sha1.Sum([]byte(key))
	k := string(h[:10])
	r.mu.Lock()
	r.distinct[k] = struct{}{}
	r.mu.Unlock()
}

// Count adds to a named monitor counter that is reported in the evidence.
func (r *Run) Count(name string, n int64) {
	r.mu.Lock()
	r.counters[name] += n
	r.mu.Unlock()
}

// Counter returns a named counter's value.
func (r *Run) Counter(name string) int64 {
	r.mu.Lock()
	defer r.mu.Unlock()
	return r.counters[name]
}

// Set stores an extra coverage key.
func (r *Run) Set(name string, v interface{}) {
	r.mu.Lock()
	r.extra[name] = v
	r.mu.Unlock()
}

// Sample keeps the first few actual cases for the evidence file.
func (r *Run) Sample(v interface{}) {
	r.mu.Lock()
	if len(r.samples) < r.maxSamples {
		r.samples = append(r.samples, v)
	}
	r.mu.Unlock()
}

// WantSample reports whether more samples are wanted.
func (r *Run) WantSample() bool {
	r.mu.Lock()
	defer r.mu.Unlock()
	return len(r.samples) < r.maxSamples
}

// Inconclusive records an inconclusive case (watchdog, hook not reached).
func (r *Run) Inconclusive(why string) {
	r.mu.Lock()
	r.inconclusive++
	n := r.inconclusive
	r.mu.Unlock()
	if n <= 10 {
		fmt.Printf("INCONCLUSIVE property=%s %s\n", r.ID, why)
	}
}

// Violation reports an observed violation. signature is the stable class of
// the violation (compared with known_findings.json), caseID identifies the
// case for replay, what is a one-line description, witness is written to the
// replay file. It returns true when the violation is a listed known finding.
func (r *Run) Violation(signature, caseID, what string, witness interface{}) bool {
	r.mu.Lock()
	defer r.mu.Unlock()
	for _, f := range r.findings {
		if f.Status == "known" && f.Signature == signature {
			r.knownSeen[signature]++
			if r.knownSeen[signature] == 1 {
				fmt.Printf("KNOWN-FINDING: property=%s %s [%s] first seen at case %s: %s\n", r.ID, f.What, signature, caseID, what)
			}
			return true
		}
	}
	r.violations++
	r.violSeen[signature]++
	if r.violSeen[signature] > 3 {
		return false // same class already reported with witnesses
	}
	wb, err := json.Marshal(witness)
	if err != nil {
		wb, _ = json.Marshal(fmt.Sprintf("%+v", witness))
	}
	rp := Replay{Property: r.ID, Seed: r.Seed, Tier: r.Tier, Case: caseID, Signature: signature, What: what, Witness: wb}
	dir := filepath.Join(r.Root, "replay", r.ID)
	os.MkdirAll(dir, 0o755)
	h := sha1.Sum([]byte(signature + "|" + caseID + "|" + what))
	path := filepath.Join(dir, fmt.Sprintf("%s-%s.json", sanitize(signature), hex.EncodeToString(h[:4])))
	b, _ := json.MarshalIndent(rp, "", " ")
	os.WriteFile(path, b, 0o644)
	fmt.Printf("VIOLATION property=%s replay=%s\n", r.ID, path)
	fmt.Printf("  signature=%s case=%s: %s\n", signature, caseID, what)
	return false
}

func sanitize(s string) string {
	b := []byte(s)
	for i, c := range b {
		if !(c >= 'a' && c <= 'z' || c >= 'A' && c <= 'Z' || c >= '0' && c <= '9' || c == '-' || c == '_' || c == '.') {
			b[i] = '_'
		}
	}
	if len(b) > 60 {
		b = b[:60]
	}
	return string(b)
}

// Violations returns the number of unlisted violations so far.
func (r *Run) Violations() int {
	r.mu.Lock()
	defer r.mu.Unlock()
	return r.violations
}

// Finish writes the evidence file and exits: 1 on violation, 2 when the
// run observed less than its floor (broken check, no claim), else 0.
func (r *Run) Finish() {
	r.mu.Lock()
	cov := map[string]interface{}{}
	for k, v := range r.extra {
		cov[k] = v
	}
	names := make([]string, 0, len(r.counters))
	for k := range r.counters {
		names = append(names, k)
	}
	sort.Strings(names)
	obs := map[string]int64{}
	for _, k := range names {
		obs[k] = r.counters[k]
	}
	cov["observed"] = obs
	cov["evaluations"] = r.evaluations
	cov["distinct_nontrivial"] = len(r.distinct)
	cov["rule"] = r.Rule
	if len(r.samples) == 0 {
		r.samples = []interface{}{}
	}
	cov["samples"] = r.samples
	cov["inconclusive"] = r.inconclusive
	known := map[string]int{}
	for k, v := range r.knownSeen {
		known[k] = v
	}
	cov["known_findings_seen"] = known
	out := map[string]interface{}{
		"property_id": r.ID,
		"tier":        r.Tier,
		"seed":        r.Seed,
		"level":       r.Level,
		"coverage":    cov,
		"assumptions": r.Assumptions,
		"wall_s":      time.Since(r.start).Seconds(),
		"violations":  r.violations,
	}
	if out["assumptions"] == nil || len(r.Assumptions) == 0 {
		out["assumptions"] = []string{}
	}
	viol, nd, floor, replay := r.violations, len(r.distinct), r.Floor, r.replay != nil
	incon := r.inconclusive
	r.mu.Unlock()

	b, _ := json.MarshalIndent(out, "", " ")
	if !replay {
		dir := filepath.Join(r.Root, "evidence")
		os.MkdirAll(dir, 0o755)
		if err := os.WriteFile(filepath.Join(dir, r.ID+".json"), append(b, '\n'), 0o644); err != nil {
			fmt.Fprintf(os.Stderr, "cannot write evidence: %v\n", err)
			os.Exit(2)
		}
	}
	fmt.Printf("summary %s: evaluations=%d distinct_nontrivial=%d violations=%d inconclusive=%d known=%v observed=%v wall=%.1fs\n",
		r.ID, out["coverage"].(map[string]interface{})["evaluations"], nd, viol, incon, known, obs, time.Since(r.start).Seconds())
	if viol > 0 {
		os.Exit(1)
	}
	if !replay && nd < floor {
		fmt.Printf("BROKEN-CHECK %s: observed %d distinct non-trivial cases, floor is %d; no verdict\n", r.ID, nd, floor)
		if os.Getenv("VERIF_CHILD") == "1" {
			os.Exit(ExitBroken)
		}
		os.Exit(2)
	}
	os.Exit(0)
}

// Hash returns a short stable hash of the arguments.
func Hash(parts ...interface{}) string {
	h := sha1.New()
	for _, p := range parts {
		fmt.Fprintf(h, "%v|", p)
	}
	return hex.EncodeToString(h.Sum(nil)[:8])
}

// TempDir makes a scratch directory, preferring /dev/shm.
func TempDir(prefix string) string {
	base := os.Getenv("VERIF_SCRATCH")
	if base == "" {
		if st, err := os.Stat("/dev/shm"); err == nil && st.IsDir() {
			base = "/dev/shm"
		} else {
			base = os.TempDir()
		}
	}
	d, err := os.MkdirTemp(base, "verif-"+prefix+"-")
	if err != nil {
		fmt.Fprintf(os.Stderr, "mktemp: %v\n", err)
		os.Exit(2)
	}
	return d
}

// ---------------------------------------------------------------------------
// Supervision: the check body runs in a child process so that a crash of the
// target (panic, fatal error, checkptr) is an observation, not the end of the
// monitor. The child notes the case it is about to run with Begin.

// Begin notes the case about to be executed (written to disk before the
// target sees the input) so a crash can be attributed to it.
func (r *Run) Begin(caseID string, input interface{}) {
	p := os.Getenv("VERIF_CURRENT")
	if p == "" {
		return
	}
	b, err := json.Marshal(map[string]interface{}{"case": caseID, "input": input})
	if err != nil {
		b, _ = json.Marshal(map[string]interface{}{"case": caseID, "input": fmt.Sprintf("%+v", input)})
	}
	tmp := p + ".tmp"
	if os.WriteFile(tmp, b, 0o644) == nil {
		os.Rename(tmp, p)
	}
}

// ExitBroken is the child's exit status for "floor not met / harness problem".
const ExitBroken = 3
