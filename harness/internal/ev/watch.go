package ev

import (
	"regexp"
	"runtime"
	"sort"
	"strings"
	"time"
)

// WatchResult is the outcome of a watched operation.
type WatchResult int

const (
	Finished   WatchResult = iota
	Deadlocked             // did not finish and two goroutine dumps apart show it blocked on the same stack
	Slow                   // did not finish within the watchdog but kept moving: inconclusive
)

var hexArgs = regexp.MustCompile(`\(0x[0-9a-f?, x{}.]*\)|\+0x[0-9a-f]+|fp=0x[0-9a-f]+ sp=0x[0-9a-f]+ pc=0x[0-9a-f]+|, \d+ minutes`)

var (
	reGID    = regexp.MustCompile(`^goroutine (\d+) `)
	reParent = regexp.MustCompile(`in goroutine (\d+)\s*\n`)
)

// watchedStack returns the normalised stacks of the goroutine that runs the
// watched function and of all goroutines it (transitively) created, and
// whether all of them are parked in a blocking state.
func watchedStack(marker string) (stack string, blocked bool) {
	buf := make([]byte, 64<<20)
	n := runtime.Stack(buf, true)
	blocks := strings.Split(string(buf[:n]), "\n\n")
	type gor struct {
		id, parent string
		text       string
	}
	var gs []gor
	root := ""
	for _, g := range blocks {
		m := reGID.FindStringSubmatch(g)
		if m == nil {
			continue
		}
		x := gor{id: m[1], text: g}
		if pm := reParent.FindAllStringSubmatch(g+"\n", -1); len(pm) > 0 {
			x.parent = pm[len(pm)-1][1]
		}
		if strings.Contains(g, marker) && !strings.Contains(g, "ev.watchedStack") {
			root = x.id
		}
		gs = append(gs, x)
	}
	if root == "" {
		return "", false
	}
	in := map[string]bool{root: true}
	for changed := true; changed; {
		changed = false
		for _, x := range gs {
			if !in[x.id] && in[x.parent] {
				in[x.id] = true
				changed = true
			}
		}
	}
	var parts []string
	blocked = true
	for _, x := range gs {
		if !in[x.id] {
			continue
		}
		nl := strings.IndexByte(x.text, '\n')
		if nl < 0 {
			continue
		}
		head := x.text[:nl]
		if strings.Contains(head, "[running") || strings.Contains(head, "[runnable") || strings.Contains(head, "[syscall") || strings.Contains(head, "[IO wait") {
			blocked = false
		}
		parts = append(parts, hexArgs.ReplaceAllString(x.text, ""))
	}
	sort.Strings(parts)
	return strings.Join(parts, "\n\n"), blocked
}

// Watch runs fn under a watchdog. If fn has not returned after limit it takes
// two goroutine dumps `apart` apart: the same blocked stack in both is
// evidence of a deadlock (returned with the dump); otherwise the verdict is
// Slow (inconclusive). fn keeps running in its goroutine in both cases, so a
// caller must stop using the objects fn touches.
func Watch(limit, apart time.Duration, fn func()) (WatchResult, string) {
	done := make(chan struct{})
	go func() {
		defer close(done)
		verifWatchedFrame(fn)
	}()
	t := time.NewTimer(limit)
	defer t.Stop()
	select {
	case <-done:
		return Finished, ""
	case <-t.C:
	}
	s1, b1 := watchedStack("ev.verifWatchedFrame")
	select {
	case <-done:
		return Finished, ""
	case <-time.After(apart):
	}
	s2, b2 := watchedStack("ev.verifWatchedFrame")
	select {
	case <-done:
		return Finished, ""
	default:
	}
	if b1 && b2 && s1 == s2 && s1 != "" {
		buf := make([]byte, 8<<20)
		n := runtime.Stack(buf, true)
		return Deadlocked, string(buf[:n])
	}
	return Slow, s2
}

//go:noinline
func verifWatchedFrame(fn func()) { fn() }
