// Package cluster runs a whole influxdb-cluster (meta nodes + data nodes,
// built from cmd/influxd-meta/run and cmd/influxd/run) inside the test
// process on loopback, with the real HTTP, raft and inter-node TCP paths.
package cluster

import (
	"bytes"
	"encoding/json"
	"fmt"
	"io"
	"net"
	"net/http"
	"net/url"
	"os"
	"path/filepath"
	"strings"
	"time"

	datarun "github.com/influxdata/influxdb/cmd/influxd/run"
	metarun "github.com/influxdata/influxdb/cmd/influxd-meta/run"
	"github.com/influxdata/influxdb/services/collectd"
	"github.com/influxdata/influxdb/services/graphite"
	"github.com/influxdata/influxdb/services/meta"
	"github.com/influxdata/influxdb/services/opentsdb"
	"github.com/influxdata/influxdb/services/udp"
	"github.com/influxdata/influxdb/toml"
	"go.uber.org/zap"
)

// Options tune the cluster.
type Options struct {
	Index          string        // "inmem" (default) or "tsi1"
	WriteTimeout   time.Duration // coordinator write timeout (default 10s)
	ReaderTimeout  time.Duration // shard-reader-timeout
	HHRetry        time.Duration // hinted handoff retry interval (default 200ms)
	HHEnabled      bool
	AuthEnabled    bool
	Retention      bool          // run the retention service
	RetentionCheck time.Duration
	Verbose        bool
	ConfigData     func(i int, c *datarun.Config)
}

// MetaNode is one meta server.
type MetaNode struct {
	Dir      string
	HTTPAddr string
	TCPAddr  string
	Srv      *metarun.Server
	cfg      *metarun.Config
	Running  bool
	opened   chan error
}

// DataNode is one data server.
type DataNode struct {
	Dir      string
	HTTPAddr string
	TCPAddr  string
	ID       uint64
	Srv      *datarun.Server
	cfg      *datarun.Config
	Running  bool
}

// Cluster is an in-process cluster.
type Cluster struct {
	Dir   string
	Opts  Options
	Metas []*MetaNode
	Datas []*DataNode
	HTTP  *http.Client
}

func freeAddr() (string, error) {
	ln, err := net.Listen("tcp", "127.0.0.1:0")
	if err != nil {
		return "", err
	}
	defer ln.Close()
	return ln.Addr().String(), nil
}

// Start brings up nMeta meta nodes and nData data nodes.
func Start(dir string, nMeta, nData int, opts Options) (*Cluster, error) {
	if opts.Index == "" {
		opts.Index = "inmem"
	}
	if opts.WriteTimeout == 0 {
		opts.WriteTimeout = 10 * time.Second
	}
	if opts.HHRetry == 0 {
		opts.HHRetry = 200 * time.Millisecond
	}
	c := &Cluster{Dir: dir, Opts: opts, HTTP: &http.Client{Timeout: 120 * time.Second}}
	for i := 0; i < nMeta; i++ {
		m, err := c.newMeta(i)
		if err != nil {
			c.Close()
			return nil, err
		}
		c.Metas = append(c.Metas, m)
		if err := c.StartMeta(i); err != nil {
			c.Close()
			return nil, err
		}
	}
	// bootstrap: first node joins itself, others join through it
	for i := range c.Metas {
		if err := c.postForm(c.Metas[0].HTTPAddr, "/join", url.Values{"addr": {c.Metas[i].HTTPAddr}}, 60*time.Second); err != nil {
			c.Close()
			return nil, fmt.Errorf("join meta %d: %v", i, err)
		}
		if err := c.WaitMeta(i, 60*time.Second); err != nil {
			c.Close()
			return nil, err
		}
	}
	for i := 0; i < nData; i++ {
		if _, err := c.AddData(); err != nil {
			c.Close()
			return nil, err
		}
	}
	return c, nil
}

func (c *Cluster) newMeta(i int) (*MetaNode, error) {
	httpAddr, err := freeAddr()
	if err != nil {
		return nil, err
	}
	tcpAddr, err := freeAddr()
	if err != nil {
		return nil, err
	}
	cfg := metarun.NewConfig()
	cfg.ReportingDisabled = true
	cfg.Meta.Dir = filepath.Join(c.Dir, fmt.Sprintf("meta%d", i))
	cfg.Meta.BindAddress = tcpAddr
	cfg.Meta.HTTPBindAddress = httpAddr
	cfg.Meta.LoggingEnabled = c.Opts.Verbose
	cfg.Meta.RetentionAutoCreate = true
	cfg.Meta.ElectionTimeout = toml.Duration(500 * time.Millisecond)
	cfg.Meta.HeartbeatTimeout = toml.Duration(500 * time.Millisecond)
	cfg.Meta.LeaderLeaseTimeout = toml.Duration(250 * time.Millisecond)
	cfg.Meta.CommitTimeout = toml.Duration(20 * time.Millisecond)
	cfg.BindAddress = tcpAddr
	cfg.Hostname = "127.0.0.1"
	return &MetaNode{Dir: cfg.Meta.Dir, HTTPAddr: httpAddr, TCPAddr: tcpAddr, cfg: cfg}, nil
}

// StartMeta (re)starts meta node i on its directory. Open blocks until the
// node sees a raft leader (a fresh node: until it has been joined), so it runs
// in the background; WaitMeta waits for it.
func (c *Cluster) StartMeta(i int) error {
	m := c.Metas[i]
	srv, err := metarun.NewServer(m.cfg, &metarun.BuildInfo{Version: "verif"})
	if err != nil {
		return err
	}
	if !c.Opts.Verbose {
		srv.Logger = zap.NewNop()
	}
	m.Srv = srv
	m.Running = true
	m.opened = make(chan error, 1)
	go func() {
		err := srv.Open()
		m.opened <- err
		if err == nil {
			for range srv.Err() {
			}
		}
	}()
	return nil
}

// WaitMeta waits until meta node i finished opening.
func (c *Cluster) WaitMeta(i int, wait time.Duration) error {
	m := c.Metas[i]
	if m.opened == nil {
		return nil
	}
	select {
	case err := <-m.opened:
		m.opened = nil
		if err != nil {
			return fmt.Errorf("open meta %d: %v", i, err)
		}
		return nil
	case <-time.After(wait):
		return fmt.Errorf("meta %d did not finish opening within %v", i, wait)
	}
}

// StopMeta stops meta node i.
func (c *Cluster) StopMeta(i int) {
	m := c.Metas[i]
	if m.Running {
		m.Srv.Close()
		m.Running = false
	}
}

// AddData creates, starts and registers one more data node.
func (c *Cluster) AddData() (*DataNode, error) {
	i := len(c.Datas)
	httpAddr, err := freeAddr()
	if err != nil {
		return nil, err
	}
	tcpAddr, err := freeAddr()
	if err != nil {
		return nil, err
	}
	cfg := datarun.NewConfig()
	d := &DataNode{Dir: filepath.Join(c.Dir, fmt.Sprintf("data%d", i)), HTTPAddr: httpAddr, TCPAddr: tcpAddr, cfg: cfg}
	cfg.ReportingDisabled = true
	cfg.Hostname = "127.0.0.1"
	cfg.BindAddress = tcpAddr
	cfg.Meta.Dir = filepath.Join(d.Dir, "meta")
	cfg.Meta.LoggingEnabled = c.Opts.Verbose
	cfg.Data.Dir = filepath.Join(d.Dir, "data")
	cfg.Data.WALDir = filepath.Join(d.Dir, "wal")
	cfg.Data.Index = c.Opts.Index
	cfg.Data.QueryLogEnabled = false
	cfg.Data.TraceLoggingEnabled = false
	cfg.HintedHandoff.Enabled = true
	cfg.HintedHandoff.Dir = filepath.Join(d.Dir, "hh")
	cfg.HintedHandoff.RetryInterval = toml.Duration(c.Opts.HHRetry)
	cfg.HintedHandoff.RetryMaxInterval = toml.Duration(2 * c.Opts.HHRetry)
	cfg.HintedHandoff.PurgeInterval = toml.Duration(time.Hour)
	cfg.HTTPD.BindAddress = httpAddr
	cfg.HTTPD.LogEnabled = false
	cfg.HTTPD.AuthEnabled = c.Opts.AuthEnabled
	cfg.HTTPD.FluxEnabled = false
	cfg.Coordinator.WriteTimeout = toml.Duration(c.Opts.WriteTimeout)
	if c.Opts.ReaderTimeout > 0 {
		cfg.Coordinator.ShardReaderTimeout = toml.Duration(c.Opts.ReaderTimeout)
	}
	cfg.Coordinator.DialTimeout = toml.Duration(2 * time.Second)
	cfg.Monitor.StoreEnabled = false
	cfg.Subscriber.Enabled = false
	cfg.ContinuousQuery.Enabled = false
	cfg.Retention.Enabled = c.Opts.Retention
	if c.Opts.RetentionCheck > 0 {
		cfg.Retention.CheckInterval = toml.Duration(c.Opts.RetentionCheck)
	}
	cfg.Precreator.Enabled = false
	cfg.AntiEntropy.Enabled = false
	cfg.GraphiteInputs = []graphite.Config{}
	cfg.CollectdInputs = []collectd.Config{}
	cfg.OpenTSDBInputs = []opentsdb.Config{}
	cfg.UDPInputs = []udp.Config{}
	if c.Opts.ConfigData != nil {
		c.Opts.ConfigData(i, cfg)
	}
	c.Datas = append(c.Datas, d)
	if err := c.StartData(i); err != nil {
		return nil, err
	}
	if err := c.postForm(c.Metas[0].HTTPAddr, "/add-data", url.Values{"addr": {tcpAddr}}, 60*time.Second); err != nil {
		return nil, fmt.Errorf("add-data %d: %v", i, err)
	}
	// wait until the node knows its id
	deadline := time.Now().Add(60 * time.Second)
	for time.Now().Before(deadline) {
		if id := d.Srv.MetaClient.NodeID(); id != 0 {
			d.ID = id
			break
		}
		time.Sleep(20 * time.Millisecond)
	}
	if d.ID == 0 {
		return nil, fmt.Errorf("data node %d never learned its id", i)
	}
	return d, nil
}

// StartData (re)starts data node i on its directories.
func (c *Cluster) StartData(i int) error {
	d := c.Datas[i]
	srv, err := datarun.NewServer(d.cfg, &datarun.BuildInfo{Version: "verif"})
	if err != nil {
		return err
	}
	if !c.Opts.Verbose {
		srv.Logger = zap.NewNop()
	}
	if err := srv.Open(); err != nil {
		return fmt.Errorf("open data %d: %v", i, err)
	}
	go func() {
		for range srv.Err() {
		}
	}()
	d.Srv = srv
	d.Running = true
	return nil
}

// StopData stops data node i (clean close; its directories stay).
func (c *Cluster) StopData(i int) {
	d := c.Datas[i]
	if d.Running {
		d.Srv.Close()
		d.Running = false
	}
}

// Close stops everything.
func (c *Cluster) Close() {
	for i := range c.Datas {
		c.StopData(i)
	}
	for i := range c.Metas {
		c.StopMeta(i)
	}
}

func (c *Cluster) postForm(addr, path string, form url.Values, wait time.Duration) error {
	deadline := time.Now().Add(wait)
	var last error
	for {
		resp, err := c.HTTP.PostForm("http://"+addr+path, form)
		if err == nil {
			b, _ := io.ReadAll(resp.Body)
			resp.Body.Close()
			if resp.StatusCode/100 == 2 {
				return nil
			}
			last = fmt.Errorf("%s %s: status %d: %s", path, form.Encode(), resp.StatusCode, strings.TrimSpace(string(b)))
		} else {
			last = err
		}
		if time.Now().After(deadline) {
			return last
		}
		time.Sleep(100 * time.Millisecond)
	}
}

// MetaPost posts a form to the meta leader's management endpoint (through node 0, which redirects).
func (c *Cluster) MetaPost(path string, form url.Values) error {
	for _, m := range c.Metas {
		if m.Running {
			return c.postForm(m.HTTPAddr, path, form, 30*time.Second)
		}
	}
	return fmt.Errorf("no meta node running")
}

// Result is one statement result of /query.
type Result struct {
	StatementID int             `json:"statement_id"`
	Series      []Row           `json:"series,omitempty"`
	Err         string          `json:"error,omitempty"`
	Partial     bool            `json:"partial,omitempty"`
	Messages    json.RawMessage `json:"messages,omitempty"`
}

// Row is one series of a result.
type Row struct {
	Name    string            `json:"name,omitempty"`
	Tags    map[string]string `json:"tags,omitempty"`
	Columns []string          `json:"columns"`
	Values  [][]interface{}   `json:"values"`
	Partial bool              `json:"partial,omitempty"`
}

// Response is a /query response.
type Response struct {
	Results []Result `json:"results"`
	Err     string   `json:"error,omitempty"`
	Status  int      `json:"-"`
}

// Query runs an InfluxQL request on data node i over HTTP.
func (c *Cluster) Query(i int, db, q string, params url.Values) (*Response, error) {
	v := url.Values{"q": {q}, "epoch": {"ns"}}
	if db != "" {
		v.Set("db", db)
	}
	for k, vs := range params {
		v[k] = vs
	}
	resp, err := c.HTTP.PostForm("http://"+c.Datas[i].HTTPAddr+"/query", v)
	if err != nil {
		return nil, err
	}
	defer resp.Body.Close()
	b, err := io.ReadAll(resp.Body)
	if err != nil {
		return nil, err
	}
	out := &Response{Status: resp.StatusCode}
	dec := json.NewDecoder(bytes.NewReader(b))
	dec.UseNumber()
	if err := dec.Decode(out); err != nil {
		return nil, fmt.Errorf("status %d, undecodable body %q: %v", resp.StatusCode, truncate(string(b), 300), err)
	}
	return out, nil
}

func truncate(s string, n int) string {
	if len(s) > n {
		return s[:n] + "..."
	}
	return s
}

// Write posts line protocol to data node i. It returns the HTTP status and body.
func (c *Cluster) Write(i int, db, rp, consistency, precision string, body []byte) (int, string, error) {
	v := url.Values{"db": {db}}
	if rp != "" {
		v.Set("rp", rp)
	}
	if consistency != "" {
		v.Set("consistency", consistency)
	}
	if precision != "" {
		v.Set("precision", precision)
	}
	resp, err := c.HTTP.Post("http://"+c.Datas[i].HTTPAddr+"/write?"+v.Encode(), "text/plain", bytes.NewReader(body))
	if err != nil {
		return 0, "", err
	}
	defer resp.Body.Close()
	b, _ := io.ReadAll(resp.Body)
	return resp.StatusCode, string(b), nil
}

// WaitMetaIndex waits until every running data node's meta client has caught
// up with the highest index any of them has seen.
func (c *Cluster) WaitMetaIndex(wait time.Duration) error {
	deadline := time.Now().Add(wait)
	for {
		var max uint64
		for _, d := range c.Datas {
			if d.Running {
				if idx := d.Srv.MetaClient.Data().Index; idx > max {
					max = idx
				}
			}
		}
		ok := true
		for _, d := range c.Datas {
			if d.Running && d.Srv.MetaClient.Data().Index < max {
				ok = false
			}
		}
		if ok {
			return nil
		}
		if time.Now().After(deadline) {
			return fmt.Errorf("meta clients did not converge")
		}
		time.Sleep(20 * time.Millisecond)
	}
}

// RemoveAll deletes the cluster's directories.
func (c *Cluster) RemoveAll() { os.RemoveAll(c.Dir) }

// DefaultWait is the generous watchdog used for convergence waits.
const DefaultWait = 120 * time.Second

// Normalize renders a single-statement response as a canonical string;
// qerr is non-empty when the request or the statement failed.
func Normalize(resp *Response) (norm string, rows int, qerr string) {
	if resp.Err != "" {
		return "", 0, resp.Err
	}
	if len(resp.Results) != 1 {
		return "", 0, fmt.Sprintf("unexpected number of results: %d", len(resp.Results))
	}
	res := resp.Results[0]
	if res.Err != "" {
		return "", 0, res.Err
	}
	var b strings.Builder
	for _, s := range res.Series {
		ks := make([]string, 0, len(s.Tags))
		for k := range s.Tags {
			ks = append(ks, k)
		}
		sortStrings(ks)
		fmt.Fprintf(&b, "#%s", s.Name)
		for _, k := range ks {
			fmt.Fprintf(&b, ",%s=%s", k, s.Tags[k])
		}
		fmt.Fprintf(&b, " %v\n", s.Columns)
		for _, row := range s.Values {
			rows++
			for _, v := range row {
				switch x := v.(type) {
				case nil:
					b.WriteString("null ")
				case json.Number:
					b.WriteString(x.String() + " ")
				case string:
					fmt.Fprintf(&b, "%q ", x)
				default:
					fmt.Fprintf(&b, "%v ", x)
				}
			}
			b.WriteString("\n")
		}
	}
	if res.Partial {
		b.WriteString("PARTIAL\n")
	}
	return b.String(), rows, ""
}

func sortStrings(a []string) {
	for i := 1; i < len(a); i++ {
		for j := i; j > 0 && a[j] < a[j-1]; j-- {
			a[j], a[j-1] = a[j-1], a[j]
		}
	}
}

// MetaPostOnce posts a form to the first running meta node's management
// endpoint exactly once (no retry: for operations that are not idempotent).
func (c *Cluster) MetaPostOnce(path string, form url.Values) error {
	for _, m := range c.Metas {
		if !m.Running {
			continue
		}
		resp, err := c.HTTP.PostForm("http://"+m.HTTPAddr+path, form)
		if err != nil {
			return err
		}
		b, _ := io.ReadAll(resp.Body)
		resp.Body.Close()
		if resp.StatusCode/100 == 2 {
			return nil
		}
		return fmt.Errorf("%s: status %d: %s", path, resp.StatusCode, strings.TrimSpace(string(b)))
	}
	return fmt.Errorf("no meta node running")
}

// MetaData fetches the authoritative metadata from meta node i (GET /?index=0).
func (c *Cluster) MetaData(i int) (*meta.Data, error) {
	resp, err := c.HTTP.Get("http://" + c.Metas[i].HTTPAddr + "/?index=0")
	if err != nil {
		return nil, err
	}
	defer resp.Body.Close()
	b, err := io.ReadAll(resp.Body)
	if err != nil {
		return nil, err
	}
	if resp.StatusCode != 200 {
		return nil, fmt.Errorf("meta snapshot: status %d: %s", resp.StatusCode, truncate(string(b), 200))
	}
	d := &meta.Data{}
	if err := d.UnmarshalBinary(b); err != nil {
		return nil, err
	}
	return d, nil
}

// WaitMetaCaughtUp waits until every running data node's client has reached
// the index the meta leader reports now.
func (c *Cluster) WaitMetaCaughtUp(wait time.Duration) error {
	deadline := time.Now().Add(wait)
	var want uint64
	for i, m := range c.Metas {
		if m.Running {
			if d, err := c.MetaData(i); err == nil && d.Index > want {
				want = d.Index
			}
		}
	}
	for {
		ok := true
		for _, d := range c.Datas {
			if d.Running && d.Srv.MetaClient.Data().Index < want {
				ok = false
			}
		}
		if ok {
			return nil
		}
		if time.Now().After(deadline) {
			return fmt.Errorf("data node meta clients did not reach index %d", want)
		}
		time.Sleep(10 * time.Millisecond)
	}
}
