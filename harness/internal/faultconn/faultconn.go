// Package faultconn injects connection faults between data nodes through the
// coordinator dial hook (verifhook.SetConnWrapper). One fault is active at a
// time and applies to every connection whose target is the chosen node,
// including pooled ones.
package faultconn

import (
	"errors"
	"io"
	"net"
	"sync"
	"sync/atomic"
	"time"

	"github.com/influxdata/influxdb/pkg/verifhook"
)

// Fault describes the active fault.
type Fault struct {
	Node     uint64        // target node id (0 = every node)
	Mode     string        // "refuse" | "cut" | "delay" | "" (none)
	CutAfter int64         // cut: bytes of response data let through after activation
	Delay    time.Duration // delay: sleep before the first response byte
	epoch    int64
}

var (
	cur   atomic.Value // *Fault
	epoch int64

	mu    sync.Mutex
	stats = map[uint64]*NodeStats{}
)

// NodeStats counts traffic per target node since the last Reset.
type NodeStats struct {
	Dials     int64
	BytesRead int64
	BytesSent int64
	Cuts      int64
	Refused   int64
	Delays    int64
}

// Install registers the connection wrapper.
func Install() {
	cur.Store(&Fault{})
	verifhook.SetConnWrapper(func(nodeID uint64, c net.Conn) net.Conn {
		st := statsFor(nodeID)
		atomic.AddInt64(&st.Dials, 1)
		return &conn{Conn: c, node: nodeID, st: st}
	})
}

// Set activates a fault (nil = none).
func Set(f *Fault) {
	if f == nil {
		f = &Fault{}
	}
	g := *f
	g.epoch = atomic.AddInt64(&epoch, 1)
	cur.Store(&g)
}

// Reset clears the statistics.
func Reset() {
	mu.Lock()
	stats = map[uint64]*NodeStats{}
	mu.Unlock()
}

// Stats returns a copy of the statistics.
func Stats() map[uint64]NodeStats {
	mu.Lock()
	defer mu.Unlock()
	out := map[uint64]NodeStats{}
	for k, v := range stats {
		out[k] = NodeStats{atomic.LoadInt64(&v.Dials), atomic.LoadInt64(&v.BytesRead), atomic.LoadInt64(&v.BytesSent), atomic.LoadInt64(&v.Cuts), atomic.LoadInt64(&v.Refused), atomic.LoadInt64(&v.Delays)}
	}
	return out
}

func statsFor(n uint64) *NodeStats {
	mu.Lock()
	defer mu.Unlock()
	s := stats[n]
	if s == nil {
		s = &NodeStats{}
		stats[n] = s
	}
	return s
}

type conn struct {
	net.Conn
	node  uint64
	st    *NodeStats
	ep    int64
	read  int64
	slept bool
}

var errRefused = errors.New("verif: connection refused by fault injection")

func (c *conn) fault() *Fault {
	f := cur.Load().(*Fault)
	if f.Mode == "" || (f.Node != 0 && f.Node != c.node) {
		return nil
	}
	if c.ep != f.epoch {
		c.ep, c.read, c.slept = f.epoch, 0, false
	}
	return f
}

func (c *conn) Read(p []byte) (int, error) {
	if f := c.fault(); f != nil {
		switch f.Mode {
		case "refuse":
			atomic.AddInt64(&c.st.Refused, 1)
			c.Conn.Close()
			return 0, errRefused
		case "delay":
			if !c.slept {
				c.slept = true
				atomic.AddInt64(&c.st.Delays, 1)
				time.Sleep(f.Delay)
			}
		case "cut":
			if c.read >= f.CutAfter {
				atomic.AddInt64(&c.st.Cuts, 1)
				c.Conn.Close()
				return 0, io.EOF
			}
			if rem := f.CutAfter - c.read; int64(len(p)) > rem {
				p = p[:rem]
			}
		}
	}
	n, err := c.Conn.Read(p)
	c.read += int64(n)
	atomic.AddInt64(&c.st.BytesRead, int64(n))
	return n, err
}

func (c *conn) Write(p []byte) (int, error) {
	if f := c.fault(); f != nil && f.Mode == "refuse" {
		atomic.AddInt64(&c.st.Refused, 1)
		c.Conn.Close()
		return 0, errRefused
	}
	n, err := c.Conn.Write(p)
	atomic.AddInt64(&c.st.BytesSent, int64(n))
	return n, err
}
