// Package refql is an independent reference evaluator for a subset of
// InfluxQL SELECT: raw field selects and count/sum/mean/min/max/first/last/
// spread/median over a time range with optional tag predicate, GROUP BY
// time(interval[,offset]) and tags, fill, ORDER BY time DESC, LIMIT/OFFSET/
// SLIMIT/SOFFSET. It works directly on the list of raw points.
package refql

import (
	"fmt"
	"math"
	"sort"
	"strings"
)

// Pt is a raw point (last write wins is applied by Dedup before evaluation).
type Pt struct {
	M    string
	Tags map[string]string
	T    int64
	F    map[string]interface{} // float64 | int64 | string | bool
}

// SeriesID is measurement + sorted tags.
func (p Pt) SeriesID() string {
	ks := make([]string, 0, len(p.Tags))
	for k := range p.Tags {
		ks = append(ks, k)
	}
	sort.Strings(ks)
	s := p.M
	for _, k := range ks {
		s += "," + k + "=" + p.Tags[k]
	}
	return s
}

// Dedup applies last-write-wins per (series, field, time), in slice order.
func Dedup(pts []Pt) []Pt {
	type key struct {
		s string
		t int64
	}
	idx := map[key]int{}
	var out []Pt
	for _, p := range pts {
		k := key{p.SeriesID(), p.T}
		if i, ok := idx[k]; ok {
			for f, v := range p.F {
				out[i].F[f] = v
			}
			continue
		}
		c := Pt{M: p.M, Tags: p.Tags, T: p.T, F: map[string]interface{}{}}
		for f, v := range p.F {
			c.F[f] = v
		}
		idx[k] = len(out)
		out = append(out, c)
	}
	return out
}

// Stmt is a statement of the covered grammar.
type Stmt struct {
	Func      string // "" = raw
	Field     string
	// Aux are further fields selected next to Field (raw: a row exists where
	// any selected field has a value; selector: the values of the selected
	// point). Only without GROUP BY time.
	Aux []string
	M         string
	TMin      int64 // inclusive
	TMax      int64 // inclusive
	TagEq     map[string]string
	GroupTags []string
	Interval  int64
	Offset    int64
	Fill      string // "", "none", "null", "previous", "linear", "number"
	FillNum   int64
	Desc      bool
	Limit     int
	Offs      int
	SLimit    int
	SOffset   int
}

// Text renders the statement as InfluxQL.
func (s Stmt) Text() string {
	var b strings.Builder
	b.WriteString("SELECT ")
	if s.Func == "" {
		fmt.Fprintf(&b, "%q", s.Field)
	} else {
		fmt.Fprintf(&b, "%s(%q)", s.Func, s.Field)
	}
	for _, a := range s.Aux {
		fmt.Fprintf(&b, ", %q", a)
	}
	fmt.Fprintf(&b, " FROM %q WHERE time >= %d AND time <= %d", s.M, s.TMin, s.TMax)
	ks := make([]string, 0, len(s.TagEq))
	for k := range s.TagEq {
		ks = append(ks, k)
	}
	sort.Strings(ks)
	for _, k := range ks {
		fmt.Fprintf(&b, " AND %q = '%s'", k, s.TagEq[k])
	}
	var dims []string
	if s.Interval > 0 {
		if s.Offset != 0 {
			dims = append(dims, fmt.Sprintf("time(%dns, %dns)", s.Interval, s.Offset))
		} else {
			dims = append(dims, fmt.Sprintf("time(%dns)", s.Interval))
		}
	}
	for _, t := range s.GroupTags {
		dims = append(dims, fmt.Sprintf("%q", t))
	}
	if len(dims) > 0 {
		b.WriteString(" GROUP BY " + strings.Join(dims, ", "))
	}
	switch s.Fill {
	case "none", "null", "previous", "linear":
		b.WriteString(" fill(" + s.Fill + ")")
	case "number":
		fmt.Fprintf(&b, " fill(%d)", s.FillNum)
	}
	if s.Desc {
		b.WriteString(" ORDER BY time DESC")
	}
	if s.Limit > 0 {
		fmt.Fprintf(&b, " LIMIT %d", s.Limit)
	}
	if s.Offs > 0 {
		fmt.Fprintf(&b, " OFFSET %d", s.Offs)
	}
	if s.SLimit > 0 {
		fmt.Fprintf(&b, " SLIMIT %d", s.SLimit)
	}
	if s.SOffset > 0 {
		fmt.Fprintf(&b, " SOFFSET %d", s.SOffset)
	}
	return b.String()
}

// Shape is the statement's shape (for distinctness accounting).
func (s Stmt) Shape() string {
	sh := s.Func
	if sh == "" {
		sh = "raw"
	}
	sh += "/" + s.Field
	if len(s.Aux) > 0 {
		sh += "+aux:" + strings.Join(s.Aux, ",")
	}
	if len(s.TagEq) > 0 {
		sh += "/where-tag"
	}
	if s.Interval > 0 {
		sh += "/time"
		if s.Offset != 0 {
			sh += "+off"
		}
	}
	if len(s.GroupTags) > 0 {
		sh += fmt.Sprintf("/tags%d", len(s.GroupTags))
	}
	if s.Fill != "" {
		sh += "/fill-" + s.Fill
	}
	if s.Desc {
		sh += "/desc"
	}
	if s.Limit > 0 || s.Offs > 0 {
		sh += "/limit"
	}
	if s.SLimit > 0 || s.SOffset > 0 {
		sh += "/slimit"
	}
	return sh
}

// Row is (time, value); Value nil = null.
type Row struct {
	T   int64
	V   interface{}
	Aux []interface{} // one per Stmt.Aux (nil = no value)
}

// Series is one result series.
type Series struct {
	Name string
	Tags map[string]string
	Rows []Row
}

type tv struct {
	t   int64
	v   interface{}
	aux []interface{}
}

func tagOf(p Pt, k string) string { return p.Tags[k] }

// Eval evaluates s over (deduplicated) points.
func Eval(s Stmt, pts []Pt) []Series {
	groups := map[string][]tv{}
	gtags := map[string]map[string]string{}
	dims := append([]string(nil), s.GroupTags...)
	sort.Strings(dims)
	for _, p := range pts {
		if p.M != s.M || p.T < s.TMin || p.T > s.TMax {
			continue
		}
		v, ok := p.F[s.Field]
		var aux []interface{}
		if len(s.Aux) > 0 {
			anyAux := false
			for _, a := range s.Aux {
				av, aok := p.F[a]
				if aok {
					anyAux = true
					aux = append(aux, av)
				} else {
					aux = append(aux, nil)
				}
			}
			if !ok && s.Func == "" && anyAux {
				// raw select: a row exists where any selected field has a value
				ok, v = true, nil
			}
		}
		if !ok {
			continue
		}
		match := true
		for k, want := range s.TagEq {
			if tagOf(p, k) != want {
				match = false
			}
		}
		if !match {
			continue
		}
		var idParts []string
		tags := map[string]string{}
		for _, d := range dims {
			idParts = append(idParts, tagOf(p, d))
			tags[d] = tagOf(p, d)
		}
		id := strings.Join(idParts, "\x00")
		groups[id] = append(groups[id], tv{p.T, v, aux})
		gtags[id] = tags
	}
	ids := make([]string, 0, len(groups))
	for id := range groups {
		ids = append(ids, id)
	}
	sort.Strings(ids)
	var out []Series
	for _, id := range ids {
		vals := groups[id]
		sort.Slice(vals, func(i, j int) bool { return vals[i].t < vals[j].t })
		var rows []Row
		switch {
		case s.Func == "":
			for _, x := range vals {
				rows = append(rows, Row{x.t, x.v, x.aux})
			}
		case s.Interval == 0:
			t, v := reduce(s.Func, vals)
			var aux []interface{}
			if !isSelector(s.Func) {
				t = s.TMin
			} else if len(s.Aux) > 0 {
				for _, x := range vals {
					if x.t == t {
						aux = x.aux
						break
					}
				}
			}
			rows = append(rows, Row{t, v, aux})
		default:
			rows = windows(s, vals)
		}
		if s.Desc {
			for i, j := 0, len(rows)-1; i < j; i, j = i+1, j-1 {
				rows[i], rows[j] = rows[j], rows[i]
			}
		}
		if s.Offs > 0 {
			if s.Offs >= len(rows) {
				rows = nil
			} else {
				rows = rows[s.Offs:]
			}
		}
		if s.Limit > 0 && len(rows) > s.Limit {
			rows = rows[:s.Limit]
		}
		if len(rows) == 0 {
			continue
		}
		ser := Series{Name: s.M, Rows: rows}
		if len(dims) > 0 {
			ser.Tags = gtags[id]
		}
		out = append(out, ser)
	}
	// SOFFSET / SLIMIT select from the ascending list of the tag sets the
	// index knows for the measurement under the tag predicate - whether or not
	// a tag set has a point of the field inside the time range (the limit is
	// applied when the iterators are created, before any data is read); tag
	// sets without rows then simply produce no series.
	if s.SOffset > 0 || s.SLimit > 0 {
		all := map[string]bool{}
		orderKey := map[string]string{}
		for _, p := range pts {
			if p.M != s.M {
				continue
			}
			match := true
			for k, want := range s.TagEq {
				if tagOf(p, k) != want {
					match = false
				}
			}
			if !match {
				continue
			}
			var idParts, names, vals []string
			for _, d := range dims {
				idParts = append(idParts, tagOf(p, d))
				if v := tagOf(p, d); v != "" {
					names = append(names, d)
					vals = append(vals, v)
				}
			}
			// the server orders tag sets by the key "k1|k2|v1|v2" built from the
			// dimensions the series actually carries (tsdb.MakeTagsKey): tag sets
			// lacking a dimension sort before those that have it
			key := ""
			if len(names) > 0 {
				key = strings.Join(names, "|") + "|" + strings.Join(vals, "|")
			}
			all[strings.Join(idParts, "\x00")] = true
			orderKey[strings.Join(idParts, "\x00")] = key
		}
		allIDs := make([]string, 0, len(all))
		for id := range all {
			allIDs = append(allIDs, id)
		}
		sort.Slice(allIDs, func(i, j int) bool {
			if orderKey[allIDs[i]] != orderKey[allIDs[j]] {
				return orderKey[allIDs[i]] < orderKey[allIDs[j]]
			}
			return allIDs[i] < allIDs[j]
		})
		if s.SOffset >= len(allIDs) {
			allIDs = nil
		} else {
			allIDs = allIDs[s.SOffset:]
		}
		if s.SLimit > 0 && len(allIDs) > s.SLimit {
			allIDs = allIDs[:s.SLimit]
		}
		keep := map[string]bool{}
		for _, id := range allIDs {
			keep[id] = true
		}
		var sel []Series
		for _, ser := range out {
			var idParts []string
			for _, d := range dims {
				idParts = append(idParts, ser.Tags[d])
			}
			if keep[strings.Join(idParts, "\x00")] {
				sel = append(sel, ser)
			}
		}
		out = sel
	}
	if s.Desc {
		// ... and ORDER BY time DESC lists the series in descending tag order
		for i, j := 0, len(out)-1; i < j; i, j = i+1, j-1 {
			out[i], out[j] = out[j], out[i]
		}
	}
	return out
}

func isSelector(f string) bool {
	return f == "min" || f == "max" || f == "first" || f == "last"
}

func floorDiv(a, b int64) int64 {
	q := a / b
	if (a%b != 0) && ((a < 0) != (b < 0)) {
		q--
	}
	return q
}

func windows(s Stmt, vals []tv) []Row {
	off := s.Offset % s.Interval
	start := floorDiv(s.TMin-off, s.Interval)*s.Interval + off
	var rows []Row
	var filled []bool
	i := 0
	for w := start; w <= s.TMax; w += s.Interval {
		var in []tv
		for i < len(vals) && vals[i].t < w+s.Interval {
			if vals[i].t >= w {
				in = append(in, vals[i])
			}
			i++
		}
		if len(in) == 0 {
			rows = append(rows, Row{T: w})
			filled = append(filled, true)
			continue
		}
		_, v := reduce(s.Func, in)
		rows = append(rows, Row{T: w, V: v})
		filled = append(filled, false)
	}
	// fill
	fill := s.Fill
	if fill == "" {
		fill = "null"
	}
	if s.Func == "count" && fill == "null" {
		fill = "number0"
	}
	var out []Row
	switch fill {
	case "none":
		for k, r := range rows {
			if !filled[k] {
				out = append(out, r)
			}
		}
	case "null":
		out = rows
	case "number0":
		for k, r := range rows {
			if filled[k] {
				r.V = int64(0)
			}
			out = append(out, r)
		}
	case "number":
		for k, r := range rows {
			if filled[k] {
				r.V = castFill(s, vals, s.FillNum)
			}
			out = append(out, r)
		}
	case "previous":
		var prev interface{}
		for k, r := range rows {
			if filled[k] {
				r.V = prev
			} else {
				prev = r.V
			}
			out = append(out, r)
		}
	case "linear":
		for k, r := range rows {
			if filled[k] {
				pi, ni := -1, -1
				for a := k - 1; a >= 0; a-- {
					if !filled[a] {
						pi = a
						break
					}
				}
				for a := k + 1; a < len(rows); a++ {
					if !filled[a] {
						ni = a
						break
					}
				}
				if pi >= 0 && ni >= 0 {
					pv, _ := rows[pi].V.(float64)
					nv, _ := rows[ni].V.(float64)
					// the server interpolates over window numbers (time / interval)
					iv := s.Interval
					m := (nv - pv) / float64(rows[ni].T/iv-rows[pi].T/iv)
					r.V = m*float64(r.T/iv-rows[pi].T/iv) + pv
				}
			}
			out = append(out, r)
		}
	}
	return out
}

func castFill(s Stmt, vals []tv, n int64) interface{} {
	// the fill value takes the type of the aggregate's output
	switch outKind(s.Func, vals) {
	case 'i':
		return n
	default:
		return float64(n)
	}
}

func outKind(fn string, vals []tv) byte {
	in := byte('f')
	if len(vals) > 0 {
		switch vals[0].v.(type) {
		case int64:
			in = 'i'
		case string:
			in = 's'
		case bool:
			in = 'b'
		}
	}
	switch fn {
	case "count":
		return 'i'
	case "mean", "median":
		return 'f'
	}
	return in
}

// reduce applies an aggregate to time-sorted values.
func reduce(fn string, vals []tv) (int64, interface{}) {
	switch fn {
	case "count":
		return 0, int64(len(vals))
	case "first":
		return vals[0].t, vals[0].v
	case "last":
		return vals[len(vals)-1].t, vals[len(vals)-1].v
	}
	switch vals[0].v.(type) {
	case float64:
		fs := make([]float64, len(vals))
		for i, x := range vals {
			fs[i] = x.v.(float64)
		}
		switch fn {
		case "sum":
			var sum float64
			for _, f := range fs {
				sum += f
			}
			return 0, sum
		case "mean":
			var sum float64
			for _, f := range fs {
				sum += f
			}
			return 0, sum / float64(len(fs))
		case "min":
			bi := 0
			for i, f := range fs {
				if f < fs[bi] {
					bi = i
				}
			}
			return vals[bi].t, fs[bi]
		case "max":
			bi := 0
			for i, f := range fs {
				if f > fs[bi] {
					bi = i
				}
			}
			return vals[bi].t, fs[bi]
		case "spread":
			mn, mx := fs[0], fs[0]
			for _, f := range fs {
				mn = math.Min(mn, f)
				mx = math.Max(mx, f)
			}
			return 0, mx - mn
		case "median":
			sort.Float64s(fs)
			n := len(fs)
			if n%2 == 1 {
				return 0, fs[n/2]
			}
			return 0, (fs[n/2-1] + fs[n/2]) / 2
		}
	case int64:
		is := make([]int64, len(vals))
		for i, x := range vals {
			is[i] = x.v.(int64)
		}
		switch fn {
		case "sum":
			var sum int64
			for _, v := range is {
				sum += v
			}
			return 0, sum
		case "mean":
			var sum float64
			for _, v := range is {
				sum += float64(v)
			}
			return 0, sum / float64(len(is))
		case "min":
			bi := 0
			for i, v := range is {
				if v < is[bi] {
					bi = i
				}
			}
			return vals[bi].t, is[bi]
		case "max":
			bi := 0
			for i, v := range is {
				if v > is[bi] {
					bi = i
				}
			}
			return vals[bi].t, is[bi]
		case "spread":
			mn, mx := is[0], is[0]
			for _, v := range is {
				if v < mn {
					mn = v
				}
				if v > mx {
					mx = v
				}
			}
			return 0, mx - mn
		case "median":
			sort.Slice(is, func(i, j int) bool { return is[i] < is[j] })
			n := len(is)
			if n%2 == 1 {
				return 0, float64(is[n/2])
			}
			return 0, float64(is[n/2-1]+is[n/2]) / 2
		}
	}
	return 0, nil
}
