package main

import (
	"fmt"
	"os"
	"strings"

	"verifharness/internal/cluster"
	"verifharness/internal/ev"
)

func main() {
	dir := ev.TempDir("probe")
	defer os.RemoveAll(dir)
	c, err := cluster.Start(dir, 1, 3, cluster.Options{})
	if err != nil {
		fmt.Println("start:", err)
		os.Exit(1)
	}
	defer c.Close()
	c.Query(0, "", "CREATE DATABASE db0 WITH REPLICATION 1 SHARD DURATION 1h", nil)
	c.WaitMetaIndex(cluster.DefaultWait)
	var b strings.Builder
	t0 := int64(1700000000) * 1e9
	n := 0
	for k := 0; k < 600; k++ {
		host := []string{"a", "b", "c"}[k%3]
		region := []string{"x", "y", ""}[(k/3)%3]
		tags := "host=" + host
		if region != "" {
			tags += ",region=" + region
		}
		fields := fmt.Sprintf("i=%di", k)
		if k%4 == 0 {
			fields += fmt.Sprintf(",s=\"s%d\"", k)
		}
		if k%5 == 0 {
			fields += ",b=true"
		}
		fmt.Fprintf(&b, "cpu,%s %s %d\n", tags, fields, t0+int64(k)*36e9)
		n++
	}
	st, body, err := c.Write(0, "db0", "", "all", "ns", []byte(b.String()))
	fmt.Println("write", st, body, err)
	qs := []string{
		"SELECT count(b) FROM cpu WHERE host = 'c' AND region = 'x'",
		"SELECT count(i) FROM cpu WHERE host = 'c' AND region = 'x'",
		"SELECT count(s) FROM cpu WHERE host = 'b' AND region = 'x'",
		"SELECT first(s) FROM cpu WHERE host = 'b' AND region = 'x' GROUP BY time(1h), region fill(none)",
		"SELECT count(b) FROM cpu WHERE host = 'c'",
		"SELECT count(b) FROM cpu",
	}
	bad := 0
	for rep := 0; rep < 300; rep++ {
		for i := 0; i < 3; i++ {
			q := fmt.Sprintf("SELECT count(i) FROM cpu WHERE host = '%s' AND region = '%s' GROUP BY time(30m) fill(none)", []string{"a", "b", "c"}[rep%3], []string{"x", "y"}[rep%2])
			r, err := c.Query(i, "db0", q, nil)
			if err != nil || len(r.Results) != 1 || len(r.Results[0].Series) == 0 {
				bad++
				fmt.Printf("EMPTY node%d rep%d %s => %+v %v\n", i, rep, q, r, err)
			}
		}
	}
	fmt.Println("bad", bad)
	for _, q := range qs {
		for rep := 0; rep < 1; rep++ {
			for i := 0; i < 3; i++ {
				r, err := c.Query(i, "db0", q, nil)
				s := fmt.Sprintf("%+v", r.Results)
				if len(s) > 150 {
					s = s[:150]
				}
				fmt.Printf("node%d rep%d %s => %s %v\n", i, rep, q, s, err)
			}
		}
	}
}
