package main

import (
	"fmt"
	"os"
	"time"

	"verifharness/internal/cluster"
	"verifharness/internal/ev"
)

func main() {
	dir := ev.TempDir("probe")
	defer os.RemoveAll(dir)
	t0 := time.Now()
	c, err := cluster.Start(dir, 1, 3, cluster.Options{})
	if err != nil {
		fmt.Println("start:", err)
		os.Exit(1)
	}
	defer c.Close()
	fmt.Println("started in", time.Since(t0))
	r, err := c.Query(0, "", "CREATE DATABASE db0 WITH REPLICATION 2 SHARD DURATION 1h", nil)
	fmt.Println(r, err)
	st, body, err := c.Write(1, "db0", "", "all", "ns", []byte("cpu,host=a f=1 1000\ncpu,host=b f=2 3600000000001\n"))
	fmt.Println(st, body, err)
	for i := 0; i < 3; i++ {
		r, err = c.Query(i, "db0", "SELECT * FROM cpu", nil)
		fmt.Printf("%d %+v %v\n", i, r, err)
	}
	r, _ = c.Query(0, "db0", "SHOW SHARDS", nil)
	fmt.Printf("%+v\n", r)
}
