#!/opt/veriftools/pyvenv/bin/python
"""Validate MANIFEST.json and every evidence file against the schemas."""
import json, sys, glob, jsonschema
ok = True
m = json.load(open('/verif/MANIFEST.json'))
try:
    jsonschema.validate(m, json.load(open('/root/.vp/MANIFEST.schema.json')))
    print('MANIFEST ok: %d checks, %d not_applicable' % (len(m['checks']), len(m.get('not_applicable', []))))
except Exception as e:
    ok = False; print('MANIFEST INVALID', e)
props = [json.loads(l)['id'] for l in open('/verif/properties.jsonl')]
claimed = [c['property_id'] for c in m['checks']]
na = [c['property_id'] for c in m.get('not_applicable', [])]
for p in props:
    if (p in claimed) == (p in na):
        ok = False; print('property', p, 'must be in exactly one of checks / not_applicable')
es = json.load(open('/root/.vp/EVIDENCE.schema.json'))
for c in m['checks']:
    f = c['evidence_file']
    try:
        e = json.load(open(f))
        jsonschema.validate(e, es)
        assert e['property_id'] == c['property_id']
        assert e['level'] == c['level_claimed']['category'], 'level mismatch'
        print('evidence ok', f, e['tier'], 'evals', e['coverage'].get('evaluations'), 'distinct', e['coverage'].get('distinct_nontrivial'), 'viol', e.get('violations'))
    except Exception as ex:
        ok = False; print('EVIDENCE INVALID', f, str(ex)[:300])
sys.exit(0 if ok else 1)
