#!/bin/bash
# Builds every check from files on disk only (offline); warms the Go build cache.
set -u
ROOT="$(cd "$(dirname "${BASH_SOURCE[0]}")" && pwd)"
export GOFLAGS=-mod=mod GOPROXY=off GOSUMDB=off GOTOOLCHAIN=local CGO_ENABLED=1
mkdir -p "$ROOT/bin" "$ROOT/evidence" "$ROOT/logs"
cd "$ROOT/harness" || exit 1
fail=0
for d in checks/*/; do
  id="$(basename "$d")"
  RACE=""; GCF=""
  [ -f "$d/RACE" ] && RACE="-race"
  [ -f "$d/CHECKPTR" ] && GCF="-gcflags=all=-d=checkptr"
  if ! go build -tags verif $RACE $GCF -o "$ROOT/bin/$id${RACE:+-race}" "./$d" 2>"$ROOT/logs/$id.build.log"; then
    echo "setup: build failed for $id"; tail -20 "$ROOT/logs/$id.build.log"; fail=1
  fi
done
exit $fail
