#!/usr/bin/env python3
"""Regenerates MANIFEST.json from the table below (kept in one place so the
claimed / not_applicable partition of C01..C19 is always complete)."""
import json, os, subprocess

ROOT = os.path.dirname(os.path.abspath(__file__))

# id -> (level category, technique, level text, level note, design ref)
CHECKS = {
 "C01": ("fault_enumeration",
   "crash-image replay: directory copied at every durable-step hook + every WAL torn-tail cut, reopened and compared with a last-write-wins model; consecutive crash cycles; injected snapshot failure",
   "Runs seeded histories on a real tsdb.Store; hooks in the WAL, snapshot commit, FileStore.replace, tombstone commit and delete path copy the store directory at each durable step (process-kill semantics) and at each WAL sync the family of torn tails; every image is reopened with a fresh Store and every acknowledged point must be read back (the one in-flight op may go either way). Recovered images continue the history (depth 2 quick / 3 thorough); hooks firing during recovery give crash-during-recovery images. Snapshot faults: an injected error after the file was written (with an acknowledged write and a colliding snapshot request inside the failing snapshot) and a snapshot file cut in half before it is installed. Held on the enumerated crash points of the sampled histories.",
   "Crash model is process kill + WAL-tail truncation (as the property states); loss/reordering of un-fsynced page cache of other files and removed fsync calls are invisible. One sequential client. Model = harness-side last-write-wins map.",
   "DESIGN.md section 3 C01"),
 "C02": ("exploration",
   "reference-model comparison after every operation of seeded histories, both read APIs, both directions, sub-ranges; reads inside a parked snapshot window",
   "Seeded histories (writes of all five types incl. duplicates/extremes/type conflicts, snapshots, 8 compaction kinds with 1..1000 points per block, deletes, drops, reopen) against a real tsdb.Store; after every op all model keys are read through Shard.CreateIterator and CreateCursorIterator, ascending and descending, full range and boundary-aligned sub-ranges, and compared with a last-write-wins model; partial-write reporting and field-type uniqueness are judged too. Reads also run while a cache snapshot is parked between file write and install.",
   "Sampled histories; in-batch duplicate timestamps accept either value; type conflicts only against fields holding data; background compaction off (explicit planner/compactor calls instead).",
   "DESIGN.md section 3 C02"),
 "C03": ("fault_enumeration",
   "complete enumeration of (replication, coordinator position, level, per-owner outcome vector, arrival order) on the real PointsWriter with gated recording doubles; pure oracle from the property text; real ShardWriter against a scripted owner with unique write ids (answer-belongs-to-this-write monitor); race detector on",
   "The real coordinator.PointsWriter.WritePointsPrivileged is driven through every combination of replication 1..4, coordinator position (each owner or a non-owner), consistency level and per-owner outcome (stored / retryable failure with handoff accepted or refused / permanent rejection / queue non-empty with enqueue accepted or refused / no answer), with answer arrival orders enforced by gates inside the doubles (n<=3 complete, n=4 one seeded order per tuple in quick and complete in thorough). The returned error class and, after all owner goroutines drained, the exact number and payload of hinted-handoff offers per owner are judged by a pure function of the case. A wire segment drives the real ShardWriter (connection pool, framing, timeout) with 1-5 concurrent clients against a scripted owner that answers each uniquely numbered write with stored / rejected / nothing until the call returned: the reported result must be the owner's answer to that very write.",
   "ShardWriter/HintedHandoff/TSDBStore/MetaClient are doubles (durability of an accepted enqueue is C04's concern); the integrated multi-node variant is not part of this check; arrival order of non-final successes is near-exact (scheduler yields), verdicts do not depend on it.",
   "DESIGN.md section 3 C03"),
 "C04": ("fault_enumeration",
   "FIFO/at-least-once model of the hinted-handoff queue over sequential histories, NodeProcessor split/delivery oracle, concurrent appenders racing Close (multiset + order oracles, race detector), crash images at every hh.* hook with every torn prefix of the pending write",
   "The real queue (through a verif-tagged handle), NodeProcessor and hh.Service are driven by sequential histories (append around the segment limit, current, advance, size change, purge by age with controlled mtimes, close/reopen), by batches that force bisection, by 1-32 concurrent appenders with one consumer and a Close at a seeded point, and by crash images copied inside the flush/advance/trim hooks plus every torn prefix of the pending write; oracles: FIFO model incl. Empty() at quiescent points, delivered concatenation equals the original batch, accepted = delivered + still queued (duplicates only for the block in flight), per-appender and real-time order, reopened content = suffix of the acceptance sequence with every returned block.",
   "Crash model = process kill + torn prefix of the pending write (a removed fsync is invisible); crash histories are one level deep; zero-length blocks excluded.",
   "DESIGN.md section 3 C04"),
 "C05": ("fault_enumeration",
   "in-process 3- and 4-node clusters; every fan-out statement kind re-run from every coordinator under every single fault of another node (stopped, shard disabled, connection refused, reply delayed, stream cut at seeded byte offsets) and double faults; oracle: reference answer or error",
   "Databases with replication 1/2/3 (and 2 on four nodes) hold the same data; reference answers come from the fault-free cluster; each statement is re-run from each coordinator with a fault injected on another node through the coordinator dial hook (refuse, delay past the reader timeout, cut the response stream after k bytes), by disabling a shard on one owner (error reply), by stopping a node, and with double faults that leave some shards without a healthy owner. The answer must be the reference answer or an error, never other rows; when every shard keeps a healthy owner and the fault is visible at request time the answer must be the reference. Further phases: multi-source / sub-query / wildcard statements with answers computed by the harness from the loaded points; a measurement with another schema queried right after a timed-out reply; truncate-shards on a database written around 'now' (answers before = after = data); a data node that joins after all shard groups exist coordinates every statement (owns nothing).",
   "One query at a time (fault attribution); Byzantine replies out of reach; exactly-once is judged through the rows (counts/sums over disjoint shards), not through a per-shard request log; storage ReadFilter/ReadGroup path not driven.",
   "DESIGN.md section 3 C05"),
 "C06": ("exploration",
   "replicated execution of generated command logs on 3+1 FSM instances (one snapshot/restored), canonical-form equality and invariant assertions after every entry",
   "Generated metadata command logs (every FSM command type except those needing a live raft; small argument pools so repeats/conflicts/invalid references are common) are applied entry by entry to three independent FSM replicas plus one that is snapshotted and restored at seeded points; after every entry canonical forms must agree and the invariants of the property (disjoint live ranges, id uniqueness/no reuse, owner placement of new groups, no removed-node owners, rejected command changes nothing) are asserted. Go's randomised map iteration makes order leaks visible as divergence.",
   "Sampled logs; DeletedAt (wall clock) reduced to 'is deleted'; deleted groups not compared across replicas; RemovePeer/legacy CreateNode need a live raft and are exercised by C07 instead.",
   "DESIGN.md section 3 C06"),
 "C07": ("exploration",
   "four monitors on the real meta service under the race detector: marshal/restore fidelity of generated metadata; point-in-time oracle for snapshots taken while commands continue (concurrent Persist); every execute-endpoint body class against a worker child (death + death-on-replay classification); fault histories on in-process 3-node meta clusters with restarts, leader changes and forced log snapshots, judged by acknowledged-change and convergence oracles over canonical forms",
   "(a) generated metadata values (every section, extremes) must survive marshal -> unmarshal and FSM snapshot -> restore exactly; (b) a snapshot taken at index k and persisted while later commands are applied (also concurrently) must restore to the canonical form recorded at k; (c) bodies posted to /execute on a worker child: every command type x {well-formed, missing / wrong / undecodable extension, unknown type, random}; an accepted body must not kill the node, and a node killed once must not die again on replay (restart lane); (d) seeded histories of metadata commands on real clusters interleaved with node stops/restarts, leader kills, all-node restarts and forced raft snapshots: every acknowledged change must be present on every meta node and in every data node's cache once the cluster is whole again, all canonical forms equal, acknowledged changes visible in the issuing client's cache; a restart that never finishes opening is a violation when two goroutine dumps show the opening goroutine blocked on a lock at the same stack; (e) a follower leaves and re-joins without a restart and must converge to the leader's metadata.",
   "Membership changes are exercised only by one leave / re-join mini-history (no restart in between); partitions, raft.db corruption and data-node restarts are not exercised; one sequential client in (d); 'eventually' restated as bounded waits (watchdog expiry = inconclusive); (c) single-server only.",
   "DESIGN.md section 3 C07"),
 "C08": ("exploration",
   "oracle over real PointsWriter.MapShards / WritePointsPrivileged against a real meta service and two meta clients: conservation, independent designation + FNV-64a, independence probes, clock-bracketed retention",
   "Generated metadata histories (lazy/pre-created/truncated/deleted/odd-sized groups, altered durations, 1-4 nodes) on a real single-node meta service with two clients; generated batches are mapped by the real PointsWriter and judged: multiset conservation, each point in the unique live group the metadata designates and in the shard an independent FNV-64a of the canonical key selects, same shard when mapped alone / in other batches / with permuted tags / by the second client, retention drop judged with clock brackets, end-to-end delivery to owners.",
   "Sampled; authoritative metadata observed through client snapshots; retention boundary judged only outside the measured clock bracket.",
   "DESIGN.md section 3 C08"),
 "C09": ("exploration",
   "constructed TSM file sets with known logical content -> real Compactor (full/fast/snapshot) -> content and structure oracles; aborts and failures injected at the compact.block hook",
   "The harness writes 1-8 TSM files itself (overlapping/interleaved blocks, all five types, tombstones through TSMReader), so the expected per-key content is known without trusting any reader; CompactFull/CompactFast with 1..1000 points per block and Compactor.WriteSnapshot are run, outputs are read back with fresh readers and through FileStore KeyCursors in both directions and compared; index entries must be sorted, disjoint and within limits; aborts/failures at the k-th block must leave inputs byte-identical, readable and no temp files behind.",
   "Sampled file sets; files are passed in engine order; 2 GiB rollover and reader I/O errors not exercised; crash atomicity of Replace belongs to C01.",
   "DESIGN.md section 3 C09"),
 "C10": ("exploration",
   "reference-model comparison of reads and listings after every step of delete-heavy histories; hook-scheduled interleavings (delete inside a parked / held snapshot); crash images inside the delete path",
   "Delete-heavy seeded histories on inmem and tsi1 stores: after every step (snapshots, every compaction kind, restarts) all series fields are read through both APIs and MeasurementNames/TagKeys/TagValues/SeriesCardinality are compared with the model's live-series set; deletes are also issued from inside the snap.written hook (snapshot in flight) and while an injected-failure snapshot is held for retry; crash images at del.*/tomb.committed hooks are reopened with the in-flight delete allowed either way.",
   "Sampled histories, one sequential client; listings judged at quiescent points; a delete overlapping a level compaction is scheduled by one directed scenario (compactions re-enabled while the delete is parked in its series iterator, the compaction held at its first block), otherwise only through C19 stress.",
   "DESIGN.md section 3 C10"),
 "C11": ("exploration",
   "layout-invariance comparison of HTTP query results across physical layouts of in-process clusters + independent reference evaluator over the raw points",
   "The same logical data set is loaded into 7 databases on two real in-process clusters (1 node: one shard cache-only / files-only / cache+compacted files / 1h shard groups; 3 nodes: RF1, RF2, RF3) and, after restarts, generated SELECT statements of the covered grammar are run over HTTP on every node of every layout: all 13 layout x node answers must be identical, and for the covered subset equal to an independent evaluation over the raw points (windowing, nine functions, fill, ordering, limits). A divergence is re-asked three times to tell persistent from transient ones.",
   "Sampled data sets/statements; unique timestamps across series (tie order undefined by the language); reference subset excludes fill previous/linear with DESC or count; other grammar (subqueries, regex sources, math, other functions) not generated.",
   "DESIGN.md section 3 C11"),
 "C12": ("exploration",
   "constructive generator with independent line-protocol writer + mutational hostile inputs, round-trip and request-isolation oracles, under checkptr in a supervised child",
   "Abstract points rendered by an independent writer (all escapes, numeric forms, precisions, unsorted tags) must parse to exactly that point; mutated/hostile text and binary inputs must not crash (checkptr build, supervised child) and accepted points must round-trip through String() and MarshalBinary bit-exactly; multi-line requests with a bad line must yield exactly the points of their good lines; Key/HashID independent of tag order; duplicate tags rejected.",
   "Sampled byte strings (grammar-aware, not coverage-guided); names with a backslash before a special character are outside the claimed-valid domain.",
   "DESIGN.md section 3 C12"),
 "C13": ("exploration",
   "round-trip oracle over generated sequences + every-offset truncation of WAL segments, under checkptr",
   "Runs the real block encoders/decoders (iterator and batch families, cross-wise) on generated sequences aimed at scheme boundaries and compares bit for bit; writes real WAL segments and reads every byte-offset truncation through WALSegmentReader and CacheLoader against the 'complete frames before the cut' oracle. Held on the sampled inputs only; the input space is unbounded.",
   "Trusts snappy/simple8b dependencies; timestamps within a block sorted (unsorted only via the raw scheme); sampled, not exhaustive.",
   "DESIGN.md section 3 C13"),
 "C14": ("exploration",
   "twin stores (inmem + tsi1) fed the same seeded histories; after every operation ~40 listing / predicate questions per store are compared with a model of the live series evaluated by an independent predicate evaluator; race detector on; worker children under a supervisor",
   "Seeded histories of 24-39 ops over 2-3 shards (writes creating and re-creating series from small pools, DROP SERIES / DELETE with tag and regex predicates, whole-window and partial deletes, DROP MEASUREMENT, tsi1 log->index-file and multi-level compactions with MaxIndexLogFileSize down to 1 byte, series-file compactions with lowered thresholds, snapshots, TSM compactions, reopen) are applied to an inmem and a tsi1 tsdb.Store; after every op measurements, series (by expression incl. =, !=, =~, !~, AND/OR), tag keys, tag values, cardinalities and per-shard variants are asked of both and compared with the model answer: nothing written missing, nothing dropped lingering or returning, both index types equal. The shards alternate between two retention policies of the database; a quarter of the histories follow a scripted drop / re-create / index-compaction / reopen sequence with MaxIndexLogFileSize=1.",
   "Sampled histories; measurement-level NOT/AND forms of SHOW MEASUREMENTS WHERE are not judged (meaning unclear); sketch estimates only sanity-checked; multi-measurement deletes on tsi1 with tiny log files are issued per measurement to avoid a known hang (recorded under C19).",
   "DESIGN.md section 3 C14"),
 "C15": ("fault_enumeration",
   "hostile byte streams against a real coordinator.Service in a worker child (liveness probe, allocation bound, crash classification) + round-trip equality of every message type and of streamed points, under checkptr",
   "A worker child hosts the real coordinator.Service behind the real tcp.Mux with a real store; the parent logs every stream before sending it: header byte x message type x length prefix (negative, 0, off-by-one, 2^31, MaxMessageSize +-1, 2^62) x payload class (empty, truncated, valid, valid envelope with invalid contents, random), several frames per connection, abrupt close at every position; after each stream a liveness probe must be answered and the allocation delta must stay under MaxMessageSize + 16 MiB; a worker death is classified by the panicking function. Every request/response type and point streams of all types (tags, aux, nil markers, stats frames) must survive encode -> decode.",
   "Meta client / hinted handoff / enclosing server are stubs; sampled random streams; 1 GiB frames only in thorough.",
   "DESIGN.md section 3 C15"),
 "C16": ("exploration",
   "independent privilege model vs. what reaches a recording executor / points writer behind the real httpd.Handler + meta authorizers; credential-cache histories incl. concurrent password changes, under the race detector",
   "The real httpd.Handler (auth on) with the real meta.QueryAuthorizer/WriteAuthorizer and a real meta service + two meta clients; every statement type the parser produces x 32 users (admin flag x grants on two databases) x credential carriers (basic, query parameters, Token, bearer valid/expired/no-exp/wrong secret/unknown user), multi-statement requests, writes on all write endpoints, the zero-users state; oracle: executed => credentials valid and every privilege the statement's RequiredPrivileges() names is granted. Histories of create/drop/re-create user, set password, grant/revoke with authentications populating the cache on one and on a second client: an authentication invoked after the change returned must fail; concurrent variant checks that nothing stale is re-cached.",
   "'needs' is defined by influxql's RequiredPrivileges (dependency); flux, prometheus read and debug endpoints not exercised.",
   "DESIGN.md section 3 C16"),
 "C17": ("exploration",
   "exact-boundary predicate oracle + real retention.Service against a real meta service with gated passes, injected metadata errors and a recording store; clock-bracketed judgement; K-pass bounded progress",
   "ExpiredShardGroups/DeletedShardGroups are evaluated at End+D-1ns / End+D / End+D+1ns and decoy instants over generated policies and group sets; the real retention.Service runs against a real meta service + client and a recording TSDBStore (local shards of live, expired, deleted, pruned groups and ids unknown to the metadata), every DeleteShard/DeleteShardGroup call is judged with clock brackets, metadata errors are injected between passes counted at the service's own calls, and within K=3 passes after faults stop every expired group must be marked deleted and every local shard of a deleted group removed; write-time cut-off cross-checked through MapShards.",
   "Unbounded 'eventually' restated as a 3-pass bound; the exact End+D==t instant is judged at predicate level only; cluster-level removal from every holder is not built.",
   "DESIGN.md section 3 C17"),
 "C18": ("exploration",
   "model comparison of restored/exported/copied shards against the source at backup time (both read APIs); live backup racing a writer with prefix oracle; copy-shard on a real cluster with the backup stream cut at seeded and tar-entry-boundary offsets",
   "Sources come from seeded histories ending in every mixture of cache / file generations / pending tombstones; BackupShard -> RestoreShard into a second store must read like the source (and reopen), the source must be unchanged, ExportShard must agree inside its range, a backup racing a writer must hold a prefix of the acknowledged writes that includes everything acknowledged before the call (also with a cache snapshot parked); on a 3-node cluster copy-shard through the meta endpoint is judged: success => destination content equals source and owner added, failure => owner list unchanged, with the backup stream cut through the dial hook, and the copy repeated (healthy network) after every failure; the cache flush inside BackupShard is made to fail once (refused or complete).",
   "Sampled histories; outside an export's time range only 'never written' data counts as foreign; destination stopped mid-restore and source stopped mid-copy are approximated by stream cuts.",
   "DESIGN.md section 3 C18"),
 "C19": ("exploration",
   "Go race detector over six stress workloads + history oracles: per-read acknowledged-before/started-before bounds with unique timestamps, porcupine linearizability of hot-key registers, quiescent equality, replica comparison, deadlock evidence from paired goroutine dumps",
   "Race-detector build of the real store, meta FSM, connection pool and a 3-node cluster under concurrent writers, overwriters, readers (both APIs), snapshots, explicit and background compactions, deletes, backups and hook-injected delays; race reports between two repository frames, crashes (supervisor) and deadlock evidence are violations; every read must contain all writes acknowledged before it began and nothing not yet started; hot-key histories are checked with porcupine; after the load stops (and after a restart) every acknowledged write must be readable; concurrent first writes of a field with different types must leave one type; replicas of an RF3 database must be identical after concurrent writes with locally rejected points.",
   "Only schedules that were executed are judged; porcupine timeouts and watchdogs without identical dumps are inconclusive; hinted-handoff concurrency is exercised by C04's race-detector run.",
   "DESIGN.md section 3 C19"),
}

NOT_APPLICABLE = {
}

PENDING_REASON = "check not built yet in this session (planned, see DESIGN.md section 3); not claimed until its monitor runs clean on the unchanged tree"

def main():
    props = [json.loads(l)["id"] for l in open(os.path.join(ROOT, "properties.jsonl"))]
    try:
        commits = subprocess.check_output(["git", "-C", "/repo", "log", "--format=%h %s", "--grep=^verif:"], text=True).strip().splitlines()
    except Exception:
        commits = []
    checks = []
    for pid in props:
        if pid not in CHECKS:
            continue
        cat, tech, text, note, ref = CHECKS[pid]
        checks.append({
            "property_id": pid,
            "quick_cmd": "./run %s quick" % pid,
            "thorough_cmd": "./run %s thorough" % pid,
            "evidence_file": "/verif/evidence/%s.json" % pid,
            "replay_cmd_template": "./run %s quick --replay {path}" % pid,
            "engine": "harness/checks/%s" % pid.lower(),
            "level_claimed": {"category": cat, "text": text, "design_ref": ref},
            "level_note": note,
            "technique": tech,
        })
    na = []
    for pid in props:
        if pid in CHECKS:
            continue
        na.append({"property_id": pid, "reason": NOT_APPLICABLE.get(pid, PENDING_REASON)})
    m = {
        "version": 1,
        "setup_cmd": "./setup.sh",
        "hooks": {
            "guard": "verif (Go build tag)",
            "enable": "go build -tags verif (done by ./run for every check; harness module replaces github.com/influxdata/influxdb => /repo)",
            "baseline_off_cmd": "cd /repo && GOFLAGS=-mod=mod GOPROXY=off GOSUMDB=off go test -json -vet=off -count=1 -timeout 25m ./...",
            "source_commits": commits,
            "add_only": True,
        },
        "engines": [
            {"name": "ev", "path": "harness/internal/ev", "serves_properties": sorted(CHECKS), "kind_free_text": "evidence writer, seeds, floors, known-findings classification, child-process supervision (a crash of the target is an observation), watchdog with deadlock evidence from two goroutine dumps"},
            {"name": "shardmodel", "path": "harness/internal/shardmodel", "serves_properties": [p for p in ["C01", "C02", "C10", "C18", "C19"] if p in CHECKS], "kind_free_text": "last-write-wins reference model of a shard + driver of a real tsdb.Store (writes, snapshots, planner-driven compactions, deletes, reopen, both read APIs) + seeded history generator"},
            {"name": "cluster", "path": "harness/internal/cluster", "serves_properties": [p for p in ["C05", "C07", "C11", "C18", "C19"] if p in CHECKS], "kind_free_text": "in-process cluster: real influxd-meta and influxd servers on loopback (HTTP, raft, inter-node TCP), stop/restart of nodes"},
            {"name": "faultconn", "path": "harness/internal/faultconn", "serves_properties": [p for p in ["C05", "C18"] if p in CHECKS], "kind_free_text": "connection fault injection between data nodes through the coordinator dial hook (refuse, delay, cut after k bytes)"},
            {"name": "refql", "path": "harness/internal/refql", "serves_properties": [p for p in ["C11"] if p in CHECKS], "kind_free_text": "independent InfluxQL reference evaluator for the covered SELECT grammar"},
            {"name": "crashimg", "path": "harness/internal/crashimg", "serves_properties": [p for p in ["C01", "C10"] if p in CHECKS], "kind_free_text": "sparse-aware crash image copy, torn tails"},
        ],
        "checks": checks,
        "not_applicable": na,
        "notes": "Technique family: runtime monitoring and sanitizers only. Every check rebuilds from /repo's working tree with -tags verif. Exit 0 held on what was observed / 1 VIOLATION / 2 broken or inconclusive (no verdict). known_findings.json lists genuine defects recorded rather than repaired and fix: commits.",
    }
    json.dump(m, open(os.path.join(ROOT, "MANIFEST.json"), "w"), indent=1)
    print("wrote MANIFEST.json: %d checks, %d not_applicable" % (len(checks), len(na)))

if __name__ == "__main__":
    main()
