#!/usr/bin/env python3
"""Regenerates MANIFEST.json from the table below (kept in one place so the
claimed / not_applicable partition of C01..C19 is always complete)."""
import json, os, subprocess

ROOT = os.path.dirname(os.path.abspath(__file__))

# id -> (level category, technique, level text, level note, design ref)
CHECKS = {
 "C13": ("exploration",
   "round-trip oracle over generated sequences + every-offset truncation of WAL segments, under checkptr",
   "Runs the real block encoders/decoders (iterator and batch families, cross-wise) on generated sequences aimed at scheme boundaries and compares bit for bit; writes real WAL segments and reads every byte-offset truncation through WALSegmentReader and CacheLoader against the 'complete frames before the cut' oracle. Held on the sampled inputs only; the input space is unbounded.",
   "Trusts snappy/simple8b dependencies; timestamps within a block sorted (unsorted only via the raw scheme); sampled, not exhaustive.",
   "DESIGN.md section 3 C13"),
}

NOT_APPLICABLE = {
}

PENDING_REASON = "check not built yet in this session (planned, see DESIGN.md section 3); not claimed until its monitor runs clean on the unchanged tree"

def main():
    props = [json.loads(l)["id"] for l in open(os.path.join(ROOT, "properties.jsonl"))]
    try:
        commits = subprocess.check_output(["git", "-C", "/repo", "log", "--format=%h %s", "--grep=^verif:"], text=True).strip().splitlines()
    except Exception:
        commits = []
    checks = []
    for pid in props:
        if pid not in CHECKS:
            continue
        cat, tech, text, note, ref = CHECKS[pid]
        checks.append({
            "property_id": pid,
            "quick_cmd": "./run %s quick" % pid,
            "thorough_cmd": "./run %s thorough" % pid,
            "evidence_file": "/verif/evidence/%s.json" % pid,
            "replay_cmd_template": "./run %s quick --replay {path}" % pid,
            "engine": "harness/checks/%s" % pid.lower(),
            "level_claimed": {"category": cat, "text": text, "design_ref": ref},
            "level_note": note,
            "technique": tech,
        })
    na = []
    for pid in props:
        if pid in CHECKS:
            continue
        na.append({"property_id": pid, "reason": NOT_APPLICABLE.get(pid, PENDING_REASON)})
    m = {
        "version": 1,
        "setup_cmd": "./setup.sh",
        "hooks": {
            "guard": "verif (Go build tag)",
            "enable": "go build -tags verif (done by ./run for every check; harness module replaces github.com/influxdata/influxdb => /repo)",
            "baseline_off_cmd": "cd /repo && GOFLAGS=-mod=mod GOPROXY=off GOSUMDB=off go test -json -vet=off -count=1 -timeout 25m ./...",
            "source_commits": commits,
            "add_only": True,
        },
        "engines": [
            {"name": "ev", "path": "harness/internal/ev", "serves_properties": sorted(CHECKS), "kind_free_text": "evidence writer, seeds, floors, known-findings classification, child-process supervision (a crash of the target is an observation)"},
        ],
        "checks": checks,
        "not_applicable": na,
        "notes": "Technique family: runtime monitoring and sanitizers only. Every check rebuilds from /repo's working tree with -tags verif. Exit 0 held on what was observed / 1 VIOLATION / 2 broken or inconclusive (no verdict). known_findings.json lists genuine defects recorded rather than repaired and fix: commits.",
    }
    json.dump(m, open(os.path.join(ROOT, "MANIFEST.json"), "w"), indent=1)
    print("wrote MANIFEST.json: %d checks, %d not_applicable" % (len(checks), len(na)))

if __name__ == "__main__":
    main()
